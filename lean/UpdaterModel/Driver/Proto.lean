/-
  Line protocol shared with the Rust harness (see /verif/harness/src/proto.rs):
  tokens, operations, observations. Rendering is canonical: the driver re-renders every parsed
  implementation line and insists it reproduces the input, so parser slips cannot hide differences.
-/
import UpdaterModel.Model.Ops
import UpdaterModel.Model.Sched

namespace Updater.Proto
open Updater

/-! ### tokens -/

def isSafe (c : Char) : Bool := c.isAlphanum || c == '_' || c == '-' || c == '.'

def hexNib (n : Nat) : Char := if n < 10 then Char.ofNat (48 + n) else Char.ofNat (55 + n)

/-- Percent-encode: safe ASCII stays, every other UTF-8 byte becomes %XX. Empty string is `~`. -/
def encTok (s : String) : String :=
  if s.isEmpty then "~" else
  String.ofList (s.toUTF8.toList.flatMap fun b =>
    let c := Char.ofNat b.toNat
    if b.toNat < 128 && isSafe c then [c] else ['%', hexNib (b.toNat / 16), hexNib (b.toNat % 16)])

def nibVal (c : Char) : Option Nat :=
  if '0' ≤ c ∧ c ≤ '9' then some (c.toNat - 48)
  else if 'A' ≤ c ∧ c ≤ 'F' then some (c.toNat - 55)
  else if 'a' ≤ c ∧ c ≤ 'f' then some (c.toNat - 87)
  else none

def decTokBytes : List Char → Option (List UInt8)
  | [] => some []
  | '%' :: a :: b :: rest =>
    match nibVal a, nibVal b, decTokBytes rest with
    | some x, some y, some r => some (UInt8.ofNat (x * 16 + y) :: r)
    | _, _, _ => none
  | '%' :: _ => none
  | c :: rest => (decTokBytes rest).map (UInt8.ofNat c.toNat :: ·)

def decTok (s : String) : Option String :=
  if s == "~" then some "" else
  match decTokBytes s.toList with
  | none => none
  | some bs => String.fromUTF8? (ByteArray.mk bs.toArray)

def encOpt (o : Option String) : String := match o with | none => "!" | some s => encTok s
def decOpt (s : String) : Option (Option String) :=
  if s == "!" then some none else (decTok s).map some

def encHex (b : Bytes) : String := if b.isEmpty then "~" else hexEncode b
def decHex (s : String) : Option Bytes := if s == "~" then some [] else hexDecode s

def joinWith (sep : String) (l : List String) : String := if l.isEmpty then "~" else sep.intercalate l
def splitList (sep : String) (s : String) : List String := if s == "~" then [] else s.splitOn sep

/-! ### rendering -/

def renderMeta (m : Meta) : String :=
  s!"{m.number}:{m.size}:{encTok m.hash}:{encOpt m.sig}"

def renderOptMeta : Option Meta → String
  | none => "!"
  | some m => renderMeta m

def kindStr : EventKind → String
  | .installSuccess => "I" | .installFailure => "F" | .download => "D"

def renderEvent (e : Event) : String :=
  s!"{kindStr e.kind}:{e.number}:{encTok e.appId}:{encTok e.version}:{encTok e.platform}:{encTok e.arch}:{encOpt e.msg}"

def renderNet : NetAct → String
  | .event e => "ev:" ++ renderEvent e
  | .check r => s!"ck:{encTok r.appId}:{encTok r.channel}:{encTok r.version}:{encTok r.platform}:{encTok r.arch}"
  | .download u => "dl:" ++ encTok u

def updKind : UpdateOut → String
  | .noUpdate => "none" | .installed => "inst" | .badPatch => "bad" | .errNotInit => "cfg"
  | .errBusy => "busy" | .errCheck => "check" | .errBadResponse => "badresp" | .errDownload => "dl"
  | .errBase => "other" | .errInflate => "other" | .errHash => "hash" | .errSignature => "sig"

def renderRet : Ret → String
  | .unit => "u"
  | .bool b => if b then "b1" else "b0"
  | .num n => s!"n{n}"
  | .path none => "p!"
  | .path (some n) => s!"p{n}"
  | .upd o => s!"s{o.status}:{updKind o}"

/-- Insertion sort on naturals (for the ban set and directory listings). -/
def insertSorted (n : Nat) : List Nat → List Nat
  | [] => [n]
  | x :: xs => if n ≤ x then n :: x :: xs else x :: insertSorted n xs
def sortNats (l : List Nat) : List Nat := l.foldr insertSorted []

def insertSortedS (n : String) : List String → List String
  | [] => [n]
  | x :: xs => if n ≤ x then n :: x :: xs else x :: insertSortedS n xs
def sortStrs (l : List String) : List String := l.foldr insertSortedS []

/-- The observable part of the world after an operation. -/
structure Obs where
  ret : Ret
  net : List NetAct
  sj : JFile SState
  pj : JFile PatchesState
  pd : Option (List (Nat × Art) × List String)
  la : List Act := []
  lb : Nat := 0
  /-- directory entries OUTSIDE the storage directory that this call changed (reported for a repeated init only) -/
  outside : Nat := 0
deriving Repr, Inhabited

def actChar : Act → Char
  | .A => 'A' | .R => 'R' | .T => 'T' | .U => 'U' | .N => 'N'
def renderActs (l : List Act) : String := if l.isEmpty then "~" else String.ofList (l.map actChar)
def parseActs (s : String) : Option (List Act) :=
  if s == "~" then some [] else
  mapMOpt (fun c => if c == 'A' then some Act.A else if c == 'R' then some .R else if c == 'T' then some .T
    else if c == 'U' then some .U else if c == 'N' then some .N else none) s.toList
where
  mapMOpt {α β} (f : α → Option β) : List α → Option (List β)
    | [] => some []
    | x :: xs => do let y ← f x; let ys ← mapMOpt f xs; pure (y :: ys)

def renderArt : Nat × Art → String
  | (n, .emptyDir) => s!"{n}:E"
  | (n, .file b) => s!"{n}:{encHex b}"

def renderObs (o : Obs) : String :=
  let sj := match o.sj with
    | .missing => "sj=M sje=~"
    | .garbage => "sj=G sje=~"
    | .ok s => s!"sj=V:{encTok s.version} sje={joinWith "," (s.events.map renderEvent)}"
  let pj := match o.pj with
    | .missing => "pj=M"
    | .garbage => "pj=G"
    | .ok p => s!"pj=V pjl={renderOptMeta p.last} pjn={renderOptMeta p.next} pjb={renderOptMeta p.booting} pjk={joinWith "," ((sortNats p.bad).map toString)}"
  let pd := match o.pd with
    | none => "pd=M"
    | some (arts, junk) => s!"pd={joinWith "," (arts.map renderArt)} junk={joinWith "," ((sortStrs junk).map encTok)}"
  s!"ret={renderRet o.ret} net={joinWith "," (o.net.map renderNet)} {sj} {pj} {pd} la={renderActs o.la} lb={o.lb} out={o.outside}"

/-- Observation of a model world (directory listing sorted by number). -/
def obsOf (w : World) (ret : Ret) (net : List NetAct) (la : List Act := []) (lb : Nat := 0) : Obs :=
  { ret := ret, net := net, sj := w.disk.stateJson, pj := w.disk.patchesJson, la := la, lb := lb,
    pd := match w.disk.patches with
      | none => none
      | some p => some ((sortNats (p.arts.map (·.1)).eraseDups).filterMap (fun n => (p.arts.lookup n).map (n, ·)), p.junk) }

/-- Names of the observation fields in which two observations differ. -/
def diffFields (a b : Obs) : List String :=
  (if renderRet a.ret != renderRet b.ret then ["ret"] else []) ++
  (if a.net != b.net then ["net"] else []) ++
  (if (match a.sj, b.sj with
        | .ok x, .ok y => x.version != y.version
        | .missing, .missing => false
        | .garbage, .garbage => false
        | _, _ => true) then ["sj"] else []) ++
  (if (match a.sj, b.sj with
        | .ok x, .ok y => x.events != y.events
        | _, _ => false) then ["sje"] else []) ++
  (if (match a.pj, b.pj with
        | .ok x, .ok y => x.last != y.last || x.next != y.next || x.booting != y.booting || sortNats x.bad != sortNats y.bad
        | .missing, .missing => false
        | .garbage, .garbage => false
        | _, _ => true) then ["pj"] else []) ++
  (if (match a.pd, b.pd with
        | some (x, _), some (y, _) => x != y
        | none, none => false
        | _, _ => true) then ["pd"] else []) ++
  (if (match a.pd, b.pd with
        | some (_, x), some (_, y) => sortStrs x != sortStrs y
        | _, _ => false) then ["junk"] else []) ++
  (if a.la != b.la || a.lb != b.lb then ["locks"] else []) ++
  (if a.outside != b.outside then ["outside"] else [])

/-- The storage directory an observation shows. -/
def diskOfObs (o : Obs) : Disk :=
  { stateJson := o.sj, patchesJson := o.pj,
    patches := match o.pd with
      | none => none
      | some (arts, junk) => some { arts := arts, junk := junk } }

/-! ### parsing -/

def parseMeta (s : String) : Option Meta :=
  match s.splitOn ":" with
  | [n, sz, h, sg] => do
    let n ← n.toNat?; let sz ← sz.toNat?; let h ← decTok h; let sg ← decOpt sg
    pure { number := n, size := sz, hash := h, sig := sg }
  | _ => none

def parseOptMeta (s : String) : Option (Option Meta) :=
  if s == "!" then some none else (parseMeta s).map some

def parseKind (s : String) : Option EventKind :=
  if s == "I" then some .installSuccess else if s == "F" then some .installFailure
  else if s == "D" then some .download else none

def parseEventFields : List String → Option Event
  | [k, n, app, ver, plat, arch, msg] => do
    let k ← parseKind k; let n ← n.toNat?; let app ← decTok app; let ver ← decTok ver
    let plat ← decTok plat; let arch ← decTok arch; let msg ← decOpt msg
    pure { appId := app, arch := arch, kind := k, number := n, platform := plat, version := ver, msg := msg }
  | _ => none

def parseNet (s : String) : Option NetAct :=
  match s.splitOn ":" with
  | "ev" :: rest => (parseEventFields rest).map .event
  | ["ck", app, ch, ver, plat, arch] => do
    let app ← decTok app; let ch ← decTok ch; let ver ← decTok ver; let plat ← decTok plat; let arch ← decTok arch
    pure (.check { appId := app, channel := ch, version := ver, platform := plat, arch := arch })
  | ["dl", u] => (decTok u).map .download
  | _ => none

def parseUpdKind (code : String) (k : String) : Option UpdateOut :=
  match code, k with
  | "0", "none" => some .noUpdate
  | "1", "inst" => some .installed
  | "3", "bad" => some .badPatch
  | "-1", "cfg" => some .errNotInit
  | "-1", "busy" => some .errBusy
  | "-1", "check" => some .errCheck
  | "-1", "badresp" => some .errBadResponse
  | "-1", "dl" => some .errDownload
  | "-1", "other" => some .errInflate
  | "-1", "hash" => some .errHash
  | "-1", "sig" => some .errSignature
  | _, _ => none

def parseRet (s : String) : Option Ret :=
  if s == "u" then some .unit
  else if s == "b1" then some (.bool true)
  else if s == "b0" then some (.bool false)
  else if s == "p!" then some (.path none)
  else match s.toList with
    | 'n' :: r => (String.ofList r).toNat?.map .num
    | 'p' :: r => (String.ofList r).toNat?.map (fun n => .path (some n))
    | 's' :: r =>
      match (String.ofList r).splitOn ":" with
      | [code, k] => (parseUpdKind code k).map .upd
      | _ => none
    | _ => none

def mapM' {α β} (f : α → Option β) : List α → Option (List β)
  | [] => some []
  | x :: xs => do let y ← f x; let ys ← mapM' f xs; pure (y :: ys)

/-- key=value fields of a line. -/
def fields (parts : List String) : List (String × String) :=
  parts.filterMap fun p =>
    match p.splitOn "=" with
    | [k, v] => some (k, v)
    | _ => none

def parseArt (s : String) : Option (Nat × Art) :=
  match s.splitOn ":" with
  | [n, c] => do
    let n ← n.toNat?
    if c == "E" then pure (n, .emptyDir) else do let b ← decHex c; pure (n, .file b)
  | _ => none

def parseObs (parts : List String) : Option Obs := do
  let f := fields parts
  let ret ← f.lookup "ret" >>= parseRet
  let net ← f.lookup "net" >>= (fun s => mapM' parseNet (splitList "," s))
  let sjs ← f.lookup "sj"
  let sj : JFile SState ←
    if sjs == "M" then some .missing else if sjs == "G" then some .garbage
    else match sjs.splitOn ":" with
      | ["V", ver] => do
        let ver ← decTok ver
        let evs ← f.lookup "sje" >>= (fun s => mapM' (fun e => parseEventFields (e.splitOn ":")) (splitList "," s))
        pure (.ok { version := ver, events := evs })
      | _ => none
  let pjs ← f.lookup "pj"
  let pj : JFile PatchesState ←
    if pjs == "M" then some .missing else if pjs == "G" then some .garbage
    else if pjs == "V" then do
      let l ← f.lookup "pjl" >>= parseOptMeta
      let n ← f.lookup "pjn" >>= parseOptMeta
      let b ← f.lookup "pjb" >>= parseOptMeta
      let k ← f.lookup "pjk" >>= (fun s => mapM' String.toNat? (splitList "," s))
      pure (.ok { last := l, next := n, booting := b, bad := k })
    else none
  let pds ← f.lookup "pd"
  let pd : Option (List (Nat × Art) × List String) ←
    if pds == "M" then some none else do
      let arts ← mapM' parseArt (splitList "," pds)
      let junk ← f.lookup "junk" >>= (fun s => mapM' decTok (splitList "," s))
      pure (some (arts, junk))
  let la ← f.lookup "la" >>= parseActs
  let lb ← f.lookup "lb" >>= String.toNat?
  let outside := ((f.lookup "out") >>= String.toNat?).getD 0
  pure { ret := ret, net := net, sj := sj, pj := pj, pd := pd, la := la, lb := lb, outside := outside }

def parseBoolOpt (s : String) : Option (Option Bool) :=
  if s == "!" then some none else if s == "1" then some (some true) else if s == "0" then some (some false) else none

def parseYaml (s : String) : Option (Option Yaml) :=
  if s == "bad" then some none else
  match s.splitOn ";" with
  | [app, ch, url, auto, key] => do
    let app ← decTok app; let ch ← decOpt ch; let url ← decOpt url; let auto ← parseBoolOpt auto; let key ← decOpt key
    pure (some { appId := app, channel := ch, baseUrl := url, autoUpdate := auto, key := key })
  | _ => none

def parseOffer (s : String) : Option (Option Offer) :=
  if s == "!" then some none else
  match s.splitOn ":" with
  | [n, h, u, sg] => do
    let n ← n.toNat?; let h ← decTok h; let u ← decTok u; let sg ← decOpt sg
    pure (some { number := n, hash := h, url := u, sig := sg })
  | _ => none

def parseResp (s : String) : Option (Option CheckResp) :=
  if s == "E" then some none else
  match s.splitOn ";" with
  | [av, p, rb] => do
    let av ← (if av == "1" then some true else if av == "0" then some false else none)
    let p ← parseOffer p
    let rb ← (if rb == "!" then some none else (mapM' String.toNat? (splitList "," rb)).map some)
    pure (some { available := av, patch := p, rolledBack := rb })
  | _ => none

/-- Parse an operation. `pjHist` / `sjHist`: values of the two state files after each earlier
    operation of this history (for the stale-file damage). -/
def parseOp (parts : List String) (pjHist : Array (JFile PatchesState)) (sjHist : Array (JFile SState)) :
    Option Op :=
  match parts with
  | "init" :: rest => do
    let f := fields rest
    let ver ← f.lookup "ver" >>= decTok
    let st ← f.lookup "st" >>= decTok
    let ca ← f.lookup "ca" >>= decTok
    let libs ← f.lookup "libs" >>= (fun s => mapM' decTok (splitList "," s))
    let yaml ← f.lookup "yaml" >>= parseYaml
    -- `n=`: the count the C caller passed, when it is not the length of the list (never larger): the library reads
    -- that many entries, none for a count of zero or less
    let libs ← match f.lookup "n" with
      | none => some libs
      | some s => (match s.toInt? with
        | some k => some (libs.take k.toNat)
        | none => none)
    pure (.init { version := ver, storage := st, cache := ca, libapps := libs, yaml := yaml })
  | ["restart"] => some .restart
  | ["start"] => some .start
  | ["success"] => some .success
  | ["failure"] => some .failure
  | ["nextn"] => some .nextN
  | ["nextp"] => some .nextP
  | ["curn"] => some .curN
  | ["auto"] => some .auto
  | "check" :: rest => do
    let f := fields rest
    let ch ← f.lookup "ch" >>= decOpt
    let r ← f.lookup "r" >>= parseResp
    pure (.check ch r)
  | "update" :: rest => do
    let f := fields rest
    let ch ← f.lookup "ch" >>= decOpt
    let r ← f.lookup "r" >>= parseResp
    let ds ← f.lookup "d"
    let dl ← (if ds == "E" then some none else (decHex ds).map some)
    pure (.update ch { resp := r, dl := dl })
  | ["dmg", "art-del", n] => n.toNat?.map (fun n => .damage (.artDel n))
  | ["dmg", "art-set", n, h] => do let n ← n.toNat?; let b ← decHex h; pure (.damage (.artSet n b))
  | ["dmg", "dir-del", n] => n.toNat?.map (fun n => .damage (.dirDel n))
  | ["dmg", "pdir-del"] => some (.damage .pdirDel)
  | ["dmg", "junk", name] => (decTok name).map (fun s => .damage (.junk s))
  | ["dmg", "pj-del"] => some (.damage .pjDel)
  | ["dmg", "pj-garbage"] => some (.damage .pjGarbage)
  | ["dmg", "pj-stale", k] => do
    let k ← k.toNat?
    match pjHist[k]? with
    | some (.ok v) => pure (.damage (.pjSet v))
    | _ => none
  | ["dmg", "sj-del"] => some (.damage .sjDel)
  | ["dmg", "sj-garbage"] => some (.damage .sjGarbage)
  | ["dmg", "sj-stale", k] => do
    let k ← k.toNat?
    match sjHist[k]? with
    | some (.ok v) => pure (.damage (.sjSet v))
    | _ => none
  | ["dmg", "sj-stale", k, "t"] => do
    -- the same earlier state.json with its event timestamps moved far into the future: the model has no timestamps
    let k ← k.toNat?
    match sjHist[k]? with
    | some (.ok v) => pure (.damage (.sjSet v))
    | _ => none
  | ["dmg", "sj-stale", k, "m"] => do
    -- the current state.json (if it is well-formed) with the queued events of version k appended, the whole list twice
    let k ← k.toNat?
    match sjHist.back?, sjHist[k]? with
    | some (.ok cur), some (.ok old) =>
      -- events of another release are never merged in (the harness leaves the file alone then)
      if cur.version = old.version then
        pure (.damage (.sjSet { cur with events := (cur.events ++ old.events) ++ (cur.events ++ old.events) }))
      else pure (.damage .nop)
    | some _, some (.ok _) => pure (.damage .nop)
    | _, _ => none
  | ["dmg", "nop"] => some (.damage .nop)
  | _ => none

/-- Patch numbers an operation mentions (domain of the directory listing). -/
def opKeys : Op → List Nat
  | .check _ (some r) => (r.patch.map (·.number)).toList ++ r.rolledBack.getD []
  | .update _ sc => match sc.resp with
    | some r => (r.patch.map (·.number)).toList ++ r.rolledBack.getD []
    | none => []
  | .damage (.artDel n) => [n]
  | .damage (.artSet n _) => [n]
  | .damage (.dirDel n) => [n]
  | _ => []

end Updater.Proto
