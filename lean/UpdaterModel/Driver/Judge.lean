/-
  Evaluates the property monitors of `Model/Monitor.lean` on observed traces.
-/
import UpdaterModel.Driver.Proto
import UpdaterModel.Model.Monitor
import UpdaterModel.Model.Monitor2

namespace Updater.Judge
open Updater Updater.Proto

def viewOfObs (o : Obs) : View :=
  { ret := o.ret, net := o.net, sj := o.sj, pj := o.pj,
    pdir := o.pd.isSome,
    arts := match o.pd with | some (a, _) => a | none => [],
    junk := match o.pd with | some (_, j) => j | none => [],
    la := o.la, outside := o.outside }

/-- Verdict: `none` = accepted; `some (step, reason)` = first rejection. -/
abbrev Verdict := Option (Nat × String)

def judgeAll (env : Env) (libs : List (String × Bytes)) (tr : List (Op × Obs)) : List (String × Verdict) :=
  let vt := tr.map fun (op, o) => (op, viewOfObs o)
  [ ("C01", mon01.run env mon01.init 0 View.empty vt),
    ("C02", mon02.run env mon02.init 0 View.empty vt),
    ("C02", mon02b.run env mon02b.init 0 View.empty vt),
    ("C03", mon03.run env mon03.init 0 View.empty vt),
    ("C05", (mon05 libs).run env (mon05 libs).init 0 View.empty vt),
    ("C06", mon06.run env mon06.init 0 View.empty vt),
    ("C08", mon08.run env mon08.init 0 View.empty vt),
    ("C09", mon09.run env mon09.init 0 View.empty vt),
    ("C10", mon10.run env mon10.init 0 View.empty vt),
    ("C10", mon10s.run env mon10s.init 0 View.empty vt),
    ("C12", mon12.run env mon12.init 0 View.empty vt),
    ("C13", mon13.run env mon13.init 0 View.empty vt),
    ("C14", mon14.run env mon14.init 0 View.empty vt),
    ("C17", mon17.run env mon17.init 0 View.empty vt),
    ("C18", mon18.run env mon18.init 0 View.empty vt),
    ("C18", mon18s.run env mon18s.init 0 View.empty vt),
    ("C19", mon19.run env mon19.init 0 View.empty vt),
    ("C20", mon20.run env mon20.init 0 View.empty vt) ]

end Updater.Judge
