/-
  Property monitors evaluated on traces (implementation or model).
-/
import UpdaterModel.Driver.Proto

namespace Updater.Judge
open Updater Updater.Proto

/-- Verdict: `none` = the trace is accepted; `some (step, reason)` = first rejection. -/
abbrev Verdict := Option (Nat × String)

def judgeAll (_env : Env) (_tr : List (Op × Obs)) : List (String × Verdict) := []

end Updater.Judge
