HOOK_COMMITS = ["be490b6"]
NOTES = ("Machine-checked proof in Lean 4 about a hand-written model that mirrors library/src function by function; "
         "every check re-builds the proofs, re-builds the harness against /repo's working tree, runs a correspondence "
         "campaign (model vs real code, full disk state after every call) and evaluates the Lean property monitors on the "
         "implementation's traces. See DESIGN.md.")
NOT_YET = {}
TEXT = {
 "C19": {
  "level": "Theorem C19_holds: every model history is accepted by the C19 monitor - all five reclamation clauses (success sweep, failed patch, rolled-back patch, "
           "superseded pending patch, release change) proved for every reachable and unreachable disk the call may start from, arbitrary histories incl. damage. "
           "The same monitor runs on the real library's traces.",
  "design_ref": "DESIGN.md section 3, C19",
  "note": "Lean kernel; model/code correspondence (directory listing with contents after every call) sampled by this run's campaign.",
  "technique": "Lean 4 theorem (per-call case analysis over all states, lifted over histories) + differential correspondence check",
 },
 "C08": {
  "level": "Theorem C08_holds: every model history is accepted by the C08 monitor - the first call that loads state written for another release (or unreadable) ends "
           "with no patch recorded, no ban, no artifact, no queued event and the state re-keyed, for arbitrary old state and version strings; proved by showing such a call "
           "acts exactly as on the clean disk of the new release (opDisk_unsettled, opDisk_cleanDisk).",
  "design_ref": "DESIGN.md section 3, C08",
  "note": "Lean kernel; correspondence sampled by this run's campaign (release-change heavy profile).",
  "technique": "Lean 4 theorem (simulation: unsettled disk behaves as clean disk) + differential correspondence check",
 },
 "C17": {
  "level": "Theorem C17_holds: every model history is accepted by the C17 monitor - install-success event exactly when the booted patch differs from the last good one, "
           "exactly one queued failure event per reported/crash-detected failure, update sends the first three queued events before the check and empties the queue, "
           "one download event after and only after an install, fields as configured. The same monitor runs on the real library's traces (ordered network log).",
  "design_ref": "DESIGN.md section 3, C17",
  "note": "Lean kernel; correspondence incl. the ordered stream of event/check/download callbacks, sampled by this run's campaign.",
  "technique": "Lean 4 theorem (per-call characterisation of state.json and the emitted actions) + differential correspondence check",
 },
 "C10": {
  "level": "Theorem C10_holds: for every history the C10 monitor accepts the model trace - after a check or update whose response lists n as rolled back, "
           "n has no artifact and is not the next-boot patch after that call and every later one, until an update installs n again (or the release changes / "
           "state files are damaged). Invariant RollD pushed through every patch-manager function, section and call (step_roll); the install path is handled "
           "by the outcome case lemma afterCheck_cases. The same monitor runs on the real library's traces.",
  "design_ref": "DESIGN.md section 3, C10",
  "note": "Lean kernel; model/code correspondence sampled by this run's campaign.",
  "technique": "Lean 4 theorem (inductive invariant over all histories) + differential correspondence check",
 },
 "C02": {
  "level": "Theorem C02_holds: for every history the C02 monitor accepts the model trace - after a reported or crash-detected boot failure of n (same release, "
           "state files not damaged) n is banned on disk and in none of the three slots after every later operation, queries never report it, an update offered n "
           "requests no download and answers 'bad patch'/'no update', a check answers false. Proved by an invariant (BanD) preserved by every patch-manager function, "
           "every critical section and every API call (step_ban), lifted by induction over histories. The same monitor runs on the real library's traces.",
  "design_ref": "DESIGN.md section 3, C02",
  "note": "Lean kernel; model/code correspondence sampled by this run's campaign; process death only at call boundaries here (inside calls: C04).",
  "technique": "Lean 4 theorem (inductive invariant over all histories) + differential correspondence check",
 },
 "C14": {
  "level": "Theorem C14_holds: for every history (any call order, damage, restarts, parameters) the C14 monitor accepts the model trace; "
           "init_configured: a second init returns false and leaves the whole world unchanged for every world. The same monitor is evaluated on "
           "the real library's traces in this run, and model and code are compared field by field after every call.",
  "design_ref": "DESIGN.md section 3, C14",
  "note": "Lean kernel + model/code correspondence sampled by the campaign; restart modelled as reset of the global config.",
  "technique": "Lean 4 theorem (invariant by induction over histories) + differential correspondence check",
 },
}
