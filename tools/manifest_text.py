HOOK_COMMITS = ["be490b6"]
NOTES = ("Machine-checked proof in Lean 4 about a hand-written model that mirrors library/src function by function; "
         "every check re-builds the proofs, re-builds the harness against /repo's working tree, runs a correspondence "
         "campaign (model vs real code, full disk state after every call) and evaluates the Lean property monitors on the "
         "implementation's traces. See DESIGN.md.")
NOT_YET = {}
TEXT = {
 "C12": {
  "level": "Theorems acts_wellFormed (for every call from every world and any server behaviour: no network callback while the state lock is held, no re-entry, the update lock is only "
           "tried with the state lock free, everything released), acts_sectionsAtomic (the action after every acquisition is the release), progress (in the global transition system of any "
           "number of threads, if a thread is unfinished some thread is enabled: no schedule deadlocks), busy_update_inert. The model's action trace of every call is compared, action by "
           "action, with the trace logged by the lock hooks and network callbacks of the real library; the depth counter is read inside every network callback. "
           "Runtime half, on the real library in every run: the hung-update scenario (an update parked inside its event / patch-check / download callback while every other exported call is timed "
           "from another thread, limit 10 s, and a second update must answer 'already in progress'); the error-path scan (every mutating file-system call of sampled launches fails with EIO in "
           "turn; a call that then never returns is a deadlock); a watchdog in the driver turns any call that never returns, in any campaign, into a shrunk replay.",
  "design_ref": "DESIGN.md section 4, C12",
  "note": "partial: latency ('promptly') and the error paths after failed file-system operations are outside the model and are exhibited at run time by the two scenarios above; Mutex semantics trusted.",
  "technique": "Lean 4 theorems over lock/network action traces + trace-level correspondence with the instrumented library",
 },
 "C15": {
  "level": "Theorems (by `decide` over tables REGENERATED from /repo on every run by tools/extract_abi.py): status_discriminants/error_code/status_constants (documented codes in Rust, header, Dart), "
           "header_agrees_with_rust, dart_agrees_with_rust (every looked-up symbol exists with ABI-equal signature), structs_agree + layouts (equal field lists, hence equal layouts; concrete "
           "UpdateResult layout), and the ownership lemmas path_roundtrip / result_roundtrip / double_free_flagged / free_null in the heap model. Runtime side: nm -D of the built cdylib, "
           "sizeof/offsetof from a C compiler vs the model layout, alloc/free sequences under valgrind memcheck (thorough: ASan).",
  "design_ref": "DESIGN.md section 4, C15",
  "note": "partial: allocator behaviour is runtime (valgrind is supporting evidence); Dart side checked as text.",
  "technique": "Lean 4 theorems over source-derived tables (translator) + C/valgrind run against the built library",
 },
 "C16": {
  "level": "Theorem roundtrip: for all byte strings older, newer (< 2^63) and every match list tiling newer, bipatchDecode (encodePatch older newer ms) older = newer - "
           "by induction over the match list with LEB128/zig-zag round-trip lemmas and wrapping byte arithmetic; roundtrip_hash for the reported hash. The Lean encoder is compared "
           "byte for byte with bidiff's real output, the Lean decoder with the real bipatch crate (also on damaged streams), SHA-256 with sha2, and the real tool's file is installed "
           "through the real library end to end.",
  "design_ref": "DESIGN.md section 4, C16",
  "note": "partial: zstd trusted (identity assumed, observed on every end-to-end case); that bidiff's scanner emits a tiling is checked at run time on every pair, not proved.",
  "technique": "Lean 4 theorem (encode/decode round trip for all inputs) + differential check against the real crates",
 },
 "C01": {
  "level": "Theorems next_boot_patch_sound (for EVERY world, any disk contents: a reported next-boot patch is the recorded selection, its file exists with the recorded size, "
           "and with a key the recorded signature verifies over the file's current SHA-256) and C01_holds (over all histories incl. every damage of the alphabet: the size is the "
           "size at a verified install of that number; launch start records a boot only of such a patch). The same monitor runs on the real library's traces under heavy damage.",
  "design_ref": "DESIGN.md section 4, C01",
  "note": "Lean kernel; `verify` parameter = ring's verdicts; stale JSON = earlier versions of the file (StaleOK); forged state files excluded (not in the property's list).",
  "technique": "Lean 4 theorems (case analysis for all disks + provenance invariant over histories) + differential correspondence check",
 },
 "C07": {
  "level": "Theorems C07_signed_only / C07_missing_signature / C07_bad_key (every world), C07_rejection_is_fallback, C07_install_requires_signature (the install gate added by the fix), "
           "plus C01_holds. Monitors C01 and C05 run on the real library with valid, invalid and unparsable keys and every signature variant.",
  "design_ref": "DESIGN.md section 4, C07",
  "note": "ring/base64 trusted; `verify` filled with ring's real verdicts per (key, hash, signature) triple by the harness.",
  "technique": "Lean 4 theorems (corollaries of validate-on-read for all disks) + differential correspondence check",
 },
 "C05": {
  "level": "Theorems update_installed_sound (for every disk: 'installed' implies the download decodes against the base to a file with the advertised SHA-256, signed if required, "
           "and the selected artifact is byte-identical to it), installStage_failed (every other download is an error status and leaves the disk alone) and C05_holds over all histories. "
           "The decoder is the Lean model of bipatch; it and SHA-256 are compared with the real crates on the same bytes.",
  "design_ref": "DESIGN.md section 4, C05",
  "note": "zstd trusted (harness supplies the decompressor's actual output); hex crate semantics modelled.",
  "technique": "Lean 4 theorems (outcome case lemmas of the update path, all states) + differential correspondence check",
 },
 "C06": {
  "level": "Theorems C06_check_failed, C06_bad_response, C06_download_failed, afterCheck_healthy and C06_holds (= the C05 monitor over all histories and arbitrary server scripts: every "
           "request may fail, responses may be contradictory), C06_requests_hold (monitor mon06 over all histories: a failed patch check ends the update with the check error before any download; "
           "'installed' only if check and download both succeeded; a check whose request failed answers false). Callback-level fault injection at every request position runs on the real library, "
           "and the same histories run over REAL HTTP: the library's default hooks (reqwest, handle_network_result, its JSON on the wire) against a scripted misbehaving HTTP/1.1 server on loopback "
           "(4xx/5xx incl. an error status carrying a positive answer, resets, non-HTTP bytes, truncated / mistyped JSON, undelivered bodies, short stalls); totality of `step` gives 'every call returns'.",
  "design_ref": "DESIGN.md section 4, C06",
  "note": "partial: only the classified result of each request is in the model; TLS, DNS, proxies, cross-host redirects and long stalls are not exercised.",
  "technique": "Lean 4 theorems + differential correspondence check with scripted network failures",
 },
 "C20": {
  "level": "Theorem C20_holds (under AppConsistent): every check request carries app id, release, platform, arch and the channel chosen by precedence; a per-call channel never enters the "
           "stored configuration (step_config); every event, queued ones included, carries the configured app id and release. Monitor runs on the real library with arbitrary UTF-8 strings.",
  "design_ref": "DESIGN.md section 4, C20",
  "note": "hypothesis AppConsistent (same compiled-in app id across restarts of one history).",
  "technique": "Lean 4 theorem (invariant on the persisted event queue) + differential correspondence check",
 },
 "C19": {
  "level": "Theorem C19_holds: every model history is accepted by the C19 monitor - all five reclamation clauses (success sweep, failed patch, rolled-back patch, "
           "superseded pending patch, release change) proved for every reachable and unreachable disk the call may start from, arbitrary histories incl. damage. "
           "The same monitor runs on the real library's traces.",
  "design_ref": "DESIGN.md section 4, C19",
  "note": "Lean kernel; model/code correspondence (directory listing with contents after every call) sampled by this run's campaign.",
  "technique": "Lean 4 theorem (per-call case analysis over all states, lifted over histories) + differential correspondence check",
 },
 "C08": {
  "level": "Theorem C08_holds: every model history is accepted by the C08 monitor - the first call that loads state written for another release (or unreadable) ends "
           "with no patch recorded, no ban, no artifact, no queued event and the state re-keyed, for arbitrary old state and version strings; proved by showing such a call "
           "acts exactly as on the clean disk of the new release (opDisk_unsettled, opDisk_cleanDisk).",
  "design_ref": "DESIGN.md section 4, C08",
  "note": "Lean kernel; correspondence sampled by this run's campaign (release-change heavy profile).",
  "technique": "Lean 4 theorem (simulation: unsettled disk behaves as clean disk) + differential correspondence check",
 },
 "C17": {
  "level": "Theorem C17_holds: every model history is accepted by the C17 monitor - install-success event exactly when the booted patch differs from the last good one, "
           "exactly one queued failure event per reported/crash-detected failure, update sends the first three queued events before the check and empties the queue, "
           "one download event after and only after an install, fields as configured. The same monitor runs on the real library's traces (ordered network log).",
  "design_ref": "DESIGN.md section 4, C17",
  "note": "Lean kernel; correspondence incl. the ordered stream of event/check/download callbacks, sampled by this run's campaign.",
  "technique": "Lean 4 theorem (per-call characterisation of state.json and the emitted actions) + differential correspondence check",
 },
 "C03": {
  "level": "Theorem C03_holds: for every history with one configured key the C03 monitor "
           "accepts the model trace - (a) from the success report of n on, n's artifact keeps exactly its bytes through every later call (installs of newer/older "
           "numbers while another is pending, re-installs of n, channel switches, rollbacks of others, restarts, damage elsewhere) until a different patch boots "
           "successfully, n fails/crashes, n is rolled back, the release changes, n / the state files are damaged from outside, or the server re-issues n with other bytes; (b) whenever a call loses the selected "
           "patch, the selection afterwards is that last good patch, or nothing if there is none. Invariants GoodD (last good record + bytes + validity of every record "
           "of n) and RelPS (how selection and last-good record may move), pushed through every patch-manager function, section and call. Same monitor on real traces.",
  "design_ref": "DESIGN.md section 4, C03",
  "note": "Lean kernel; model/code correspondence sampled by this run's campaign (pending-patch clean-up with a last good patch present, re-installs, damage).",
  "technique": "Lean 4 theorem (inductive invariants over all histories) + differential correspondence check",
 },
 "C18": {
  "level": "Theorem C18_holds: for every admissible history the C18 monitor accepts the model trace - (1) from a launch start that handed n to the engine, the "
           "recorded and reported current patch is n after every later call of that process (installs, checks, rollbacks of other patches, the success report, damage "
           "elsewhere) until the launch is reported failed, n is rolled back / re-issued / damaged, the release changes or the process ends; (2) after a restart and "
           "before the next launch start current_boot_patch reports the last good patch (0 if none); (3) a launch start records the patch it selected as booting. "
           "Invariants RunD (current record + validity of every record of n), BootSub (only a launch start sets the booting record) and the C03 invariants. "
           "Theorems C18_self_run / C18_self_reports (Props/C18Self.lean) cover what that monitor stops at: over any run of calls and outside events other than a launch "
           "report, an initialisation, a restart, a state reset or a rewrite of the state files - rollbacks, re-installs and artifact damage of the RUNNING patch "
           "included - the booting record and the configuration are unchanged and current_boot_patch reports the running patch (no validity hypothesis).",
  "design_ref": "DESIGN.md section 4, C18",
  "note": "Lean kernel; model/code correspondence sampled by this run's campaign (updates completing between launch start and success, several installs per run).",
  "technique": "Lean 4 theorem (inductive invariants over all histories) + differential correspondence check",
 },
 "C13": {
  "level": "Theorems: sites_covered (the translator's table of every expression of the production build that can panic by itself - 5 today - equals the table the model "
           "covers, guards included); never_panics / stepP_ok (in the semantics that panics at exactly those sites under the Rust condition and poisons a held mutex, "
           "no history of any calls with any inputs, stored state and oracle answers panics, and the mutexes stay unpoisoned); applyChannel_ok, artifactPath_utf8 / "
           "pathToCString_ok (the two data-dependent sites); uninit_defaults and C13_holds (every call before a successful init returns its documented default and "
           "touches nothing). The campaign runs the real library on malformed yaml / responses / downloads / state files and arbitrary call orders under a panic hook; "
           "a panic that aborts the process is recovered from the crash journal as a shrunk replay.",
  "design_ref": "DESIGN.md section 4, C13",
  "note": "Lean kernel; partial: panics inside std/dependencies are outside the model (campaign evidence only).",
  "technique": "Lean 4 theorem over a translator-generated site table + explicit panic semantics + differential campaign under a panic hook",
 },
 "C11": {
  "level": "Theorem C11_holds: for every configured process, every readable storage directory of this release, every update script, every list of calls of the other thread "
           "(launch reports, queries, checks with any responses) and EVERY interleaving of the two threads at the granularity of state-lock acquisitions, after every single "
           "grant: no number whose boot failure is recorded (before or during the episode) is selected / last good / booting, its ban is never lost and the update does not "
           "install it (C02); the last good artifact keeps its bytes unless that patch itself fails, is rolled back or re-issued, or another patch boots - a patch whose success is reported during the episode is tracked from that grant on (C03); every query that "
           "returns a patch returns the selected patch, valid at that moment (C01). Proof: every section preserves the invariants for arbitrary thread-local data, then "
           "induction over the schedule (no enumeration). urun_eq_updateCore / crun_eq_checkCore: the sequential model is the section machine run without interruption. "
           "Tie: a two-thread scheduler parks the real library's threads at the before_lock hook, forces random schedules, and every grant's disk and return values are "
           "compared with the model's section machine; the same monitor judges the real grants.",
  "design_ref": "DESIGN.md section 4, C11",
  "note": "Lean kernel; partial: Mutex semantics and absence of data races outside the lock are trusted.",
  "technique": "Lean 4 theorem (section-wise invariants, induction over all schedules) + differential correspondence under a deterministic scheduler",
 },
 "C04": {
  "level": "Theorems (process death): recover_facts - from EVERY disk, a launch that selects n found a readable state of this release, n in one of the three slots, its artifact "
           "validates, and n was not the patch booting at death; crash_safe - for a launch [init ; any call, any server behaviour] started from ANY storage directory and killed "
           "anywhere before, between or in the middle of the rewrites of the two state files, with ANY contents of patches/ at that moment, the next launch of this release selects "
           "nothing or a patch that validates, was recorded before the interrupted launch in a readable state of this release (or is the one being installed), and was not booting "
           "at death; crash_in_progress - if the dying call (anything but a launch start or a success report) found patch bm marked as booting, the next launch does not select bm; crash_safe_not_banned with C02's invariant; crash_then_other_release - the same launch and crash points, but the launch after the death is one of ANOTHER release (the directory never was a state of it): it selects nothing, because every rewrite of state.json records the release of the process that died; reset_fault_safe - one I/O error in any of the three steps of the release-change reset, execution continuing, leaves nothing selectable. "
           "Theorems (one I/O error, execution continues; Props/C04Eio): a process is ANY sequence of the library's critical sections from ANY directory (a superset of every sequence of calls: reach_step; "
           "every section of every call of the crash model is one of them: opSegs_sec; replaying a section's saves gives its atomic semantics: Sec.saves_apply), hit by at most one fault - a state-file "
           "write fails (file untouched or cut short) and the section stops anywhere later or runs on, or an artifact operation fails and patches/ is left in ANY state, or one step of the release-change "
           "reset fails and the section runs on from its in-memory state; eio_safe_next_launch / eio_safe_same_process - what the next launch, or a later query of the same process, selects from whatever "
           "such a process left validates and is a record of the readable state of this release the process started from, or carries the number of a patch the process was installing. Tie: the real library is killed by an LD_PRELOAD interposer immediately before (or half-way through) its k-th "
           "mutating file-system call, for every k of the launch; the state files at death must be one of the model's crash states, a real re-launch follows, and the same "
           "predicate (crashChecks) judges what it selects (30 % of these experiments re-launch under another release and must select nothing); in mode eio the k-th call fails with EIO instead, the process must survive, and the selection of the same process and of a real re-launch, "
           "and every record left in the state files, are judged by the theorem's conclusion and invariant (eioChecks, eioRecordChecks).",
  "design_ref": "DESIGN.md section 4, C04",
  "note": "partial: durability below the system-call level (no fsync) is outside the model; read errors are not modelled; that the values a section saves do not depend on whether its removals of artifacts succeeded is proved for the fallback (tryFallBackKeep_ps), read off the code for add_patch (it gives up before saving) and exercised by the eio runs; 'not banned before' is proved under C02's invariant of the state before the launch (hypothesis hban), which Props/C04Ban discharges for every state reachable by a history without outside rewrites of the state files (reachable_selfBan, crash_safe_reachable).",
  "technique": "Lean 4 theorem (save-event semantics of every critical section, all crash points, arbitrary artifact directory) + system-call-level crash injection on the real library",
 },
 "C09": {
  "level": "Theorem C09_holds: for every history whose effective inits configure one public key, the C09 monitor accepts the model trace - after an update "
           "reports n installed, n is the next-boot patch (installed_is_next, every disk) and what it left selected passes the boot-time validation (installed_next_valid); and once every record of number n matches the artifact in place, n stays "
           "selected, its artifact stays a file and next-boot queries report n after every later call (restarts, launch reports of other patches, checks, failed/no-op "
           "updates, rollbacks of other numbers, damage elsewhere) until another install, a failed/crashed boot of n, a rollback naming n, a release change or outside "
           "damage to the state files or n's artifact. Invariant SelD pushed through every patch-manager function, section and call (step_sel). The same monitor runs "
           "on the real library's traces.",
  "design_ref": "DESIGN.md section 4, C09",
  "note": "Lean kernel; model/code correspondence sampled by this run's campaign (out-of-order numbers, installs during boot, rollbacks of other numbers).",
  "technique": "Lean 4 theorem (inductive invariant over all histories) + differential correspondence check",
 },
 "C10": {
  "level": "Theorem C10_holds: for every history the C10 monitor accepts the model trace - after a check or update whose response lists n as rolled back, "
           "n has no artifact and is not the next-boot patch after that call and every later one, until an update installs n again (or the release changes / "
           "state files are damaged). Invariant RollD pushed through every patch-manager function, section and call (step_roll); the install path is handled "
           "by the outcome case lemma afterCheck_cases. The same monitor runs on the real library's traces. Theorem C10_again_holds (Props/C10Again.lean, monitor mon10s on "
           "model and real traces): the end of the guarantee - an update whose well-formed response offers a number that is rolled back (earlier, or by that very response) "
           "is never answered 'no update' (shouldInstall_rolled: should_install_patch never takes a rolled-back number for the installed one; afterCheck_rolled_offer).",
  "design_ref": "DESIGN.md section 4, C10",
  "note": "Lean kernel; model/code correspondence sampled by this run's campaign.",
  "technique": "Lean 4 theorem (inductive invariant over all histories) + differential correspondence check",
 },
 "C02": {
  "level": "Theorem C02_holds: for every history the C02 monitor accepts the model trace - after a reported or crash-detected boot failure of n (same release, "
           "state files not damaged) n is banned on disk and in none of the three slots after every later operation, queries never report it, an update offered n "
           "requests no download and answers 'bad patch'/'no update', a check answers false. Proved by an invariant (BanD) preserved by every patch-manager function, "
           "every critical section and every API call (step_ban), lifted by induction over histories. The same monitor runs on the real library's traces.",
  "design_ref": "DESIGN.md section 4, C02",
  "note": "Lean kernel; model/code correspondence sampled by this run's campaign; process death only at call boundaries here (inside calls: C04).",
  "technique": "Lean 4 theorem (inductive invariant over all histories) + differential correspondence check",
 },
 "C14": {
  "level": "Theorem C14_holds: for every history (any call order, damage, restarts, parameters) the C14 monitor accepts the model trace; "
           "init_configured: a second init returns false and leaves the whole world unchanged for every world; the monitor also requires that should_auto_update keeps answering with the first init's setting and that every patch check of a configured process reaches the callbacks registered after the first init. The same monitor is evaluated on "
           "the real library's traces in this run, and model and code are compared field by field after every call.",
  "design_ref": "DESIGN.md section 4, C14",
  "note": "Lean kernel + model/code correspondence sampled by the campaign; restart modelled as reset of the global config.",
  "technique": "Lean 4 theorem (invariant by induction over histories) + differential correspondence check",
 },
}
