HOOK_COMMITS = ["be490b6"]
NOTES = ("Machine-checked proof in Lean 4 about a hand-written model that mirrors library/src function by function; "
         "every check re-builds the proofs, re-builds the harness against /repo's working tree, runs a correspondence "
         "campaign (model vs real code, full disk state after every call) and evaluates the Lean property monitors on the "
         "implementation's traces. See DESIGN.md.")
NOT_YET = {}
TEXT = {
 "C10": {
  "level": "Theorem C10_holds: for every history the C10 monitor accepts the model trace - after a check or update whose response lists n as rolled back, "
           "n has no artifact and is not the next-boot patch after that call and every later one, until an update installs n again (or the release changes / "
           "state files are damaged). Invariant RollD pushed through every patch-manager function, section and call (step_roll); the install path is handled "
           "by the outcome case lemma afterCheck_cases. The same monitor runs on the real library's traces.",
  "design_ref": "DESIGN.md section 3, C10",
  "note": "Lean kernel; model/code correspondence sampled by this run's campaign.",
  "technique": "Lean 4 theorem (inductive invariant over all histories) + differential correspondence check",
 },
 "C02": {
  "level": "Theorem C02_holds: for every history the C02 monitor accepts the model trace - after a reported or crash-detected boot failure of n (same release, "
           "state files not damaged) n is banned on disk and in none of the three slots after every later operation, queries never report it, an update offered n "
           "requests no download and answers 'bad patch'/'no update', a check answers false. Proved by an invariant (BanD) preserved by every patch-manager function, "
           "every critical section and every API call (step_ban), lifted by induction over histories. The same monitor runs on the real library's traces.",
  "design_ref": "DESIGN.md section 3, C02",
  "note": "Lean kernel; model/code correspondence sampled by this run's campaign; process death only at call boundaries here (inside calls: C04).",
  "technique": "Lean 4 theorem (inductive invariant over all histories) + differential correspondence check",
 },
 "C14": {
  "level": "Theorem C14_holds: for every history (any call order, damage, restarts, parameters) the C14 monitor accepts the model trace; "
           "init_configured: a second init returns false and leaves the whole world unchanged for every world. The same monitor is evaluated on "
           "the real library's traces in this run, and model and code are compared field by field after every call.",
  "design_ref": "DESIGN.md section 3, C14",
  "note": "Lean kernel + model/code correspondence sampled by the campaign; restart modelled as reset of the global config.",
  "technique": "Lean 4 theorem (invariant by induction over histories) + differential correspondence check",
 },
}
