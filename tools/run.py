#!/usr/bin/env python3
"""run.py <property> [--tier quick|thorough]

One check = (1) re-check the property's theorems in Lean (kernel) + axiom audit,
(2) rebuild the harness against /repo's working tree, (3) corpus + correspondence campaign,
(4) evaluate the Lean property monitor on the implementation's traces, (5) decide.
Exit 0 = held on everything explored; exit 1 + "VIOLATION property=<id> replay=<path>" otherwise.
"""
import sys, os, json, time, fcntl, re, hashlib, glob, shutil
sys.path.insert(0, os.path.dirname(os.path.abspath(__file__)))
from common import *
import props

ALLOWED_AXIOMS = {"propext", "Classical.choice", "Quot.sound"}
FORBIDDEN = re.compile(r"\bsorry\b|\badmit\b|^axiom\s|native_decide|bv_decide|implemented_by|\bunsafe\s|maxHeartbeats 0", re.M)


def strip_comments(text):
    text = re.sub(r"/-.*?-/", "", text, flags=re.S)
    return re.sub(r"--.*", "", text)


class Check:
    def __init__(self, prop, tier, seed):
        self.prop, self.tier, self.seed = prop, tier, seed
        self.cfg = props.PROPS[prop]
        self.t0 = time.time()
        self.problems = []      # (kind, detail)  kind in proof|correspondence|monitor|infra
        self.violations = []    # dicts with replay paths
        self.known = []
        self.ev = {}

    # ---------------------------------------------------------------- Lean
    def lean(self):
        modules = ["UpdaterModel.Props.%s" % m for m in self.cfg["modules"]]
        with open(os.path.join(WORK, ".lake.lock"), "w") as lk:
            fcntl.flock(lk, fcntl.LOCK_EX)
            gen = run([sys.executable, os.path.join(VERIF, "tools", "gen.py")], cwd=VERIF)
            if gen.returncode != 0:
                self.problems.append(("infra", "translator failed: " + gen.stdout[-800:] + gen.stderr[-800:]))
            p = run(["lake", "build"] + modules + ["model"], cwd=LEAN_DIR)
            build_ok = p.returncode == 0
            if not build_ok:
                # the driver does not depend on the theorems: keep it current so that the search for a failing input can run
                run(["lake", "build", "model"], cwd=LEAN_DIR)
                errs = [l for l in (p.stdout + p.stderr).splitlines() if "error" in l][:12]
                self.problems.append(("proof", "lake build failed for %s: %s" % (modules, " | ".join(errs))))
            if build_ok and self.tier == "thorough":
                for m in modules:
                    c = run(["lake", "env", "leanchecker", m], cwd=LEAN_DIR)
                    if c.returncode != 0:
                        self.problems.append(("proof", "leanchecker rejected %s: %s" % (m, (c.stdout + c.stderr)[-600:])))
        # source audit (comments stripped)
        bad = []
        for f in glob.glob(os.path.join(LEAN_DIR, "**", "*.lean"), recursive=True):
            if "/.lake/" in f:
                continue
            m = FORBIDDEN.search(strip_comments(open(f).read()))
            if m:
                bad.append("%s: %s" % (os.path.relpath(f, LEAN_DIR), m.group(0).strip()))
        if bad:
            self.problems.append(("proof", "forbidden construct in Lean sources: " + "; ".join(bad)))
        # theorems + axioms
        theorems, axioms_used, discharged = [], set(), 0
        if build_ok:
            for mod in self.cfg["modules"]:
                src = open(os.path.join(LEAN_DIR, "UpdaterModel", "Props", mod + ".lean")).read()
                names = re.findall(r"^theorem\s+([A-Za-z0-9_'.]+)", strip_comments(src), flags=re.M)
                audit = "import UpdaterModel.Props.%s\nopen Updater\n" % mod + "".join("#print axioms %s\n" % n for n in names)
                ap = os.path.join(WORK, "audit_%s_%d.lean" % (mod, os.getpid()))
                open(ap, "w").write(audit)
                a = run(["lake", "env", "lean", ap], cwd=LEAN_DIR)
                os.unlink(ap)
                out = a.stdout + a.stderr
                for n in names:
                    m = re.search(r"'(?:Updater\.)?%s' (depends on axioms: \[([^\]]*)\]|does not depend on any axioms)" % re.escape(n), out, flags=re.S)
                    ax = set()
                    if m is None:
                        self.problems.append(("proof", "no axiom report for theorem %s" % n))
                        theorems.append({"name": n, "axioms": None})
                        continue
                    if m.group(2):
                        ax = set(x.strip() for x in m.group(2).replace("\n", " ").split(",") if x.strip())
                    theorems.append({"name": n, "axioms": sorted(ax)})
                    axioms_used |= ax
                    if ax <= ALLOWED_AXIOMS:
                        discharged += 1
                    else:
                        self.problems.append(("proof", "theorem %s depends on %s" % (n, sorted(ax - ALLOWED_AXIOMS))))
            for need in self.cfg.get("required_theorems", []):
                if need not in [t["name"] for t in theorems]:
                    self.problems.append(("proof", "required theorem %s is missing" % need))
        self.ev.update(obligations=max(len(theorems), 1), discharged=discharged if build_ok else 0,
                       theorems=theorems, axioms=sorted(axioms_used), lean_build_ok=build_ok)
        return build_ok

    # ---------------------------------------------------------------- harness
    def harness(self):
        with open(os.path.join(WORK, ".cargo.lock"), "w") as lk:
            fcntl.flock(lk, fcntl.LOCK_EX)
            p = run(["cargo", "build", "--offline"], cwd=HARNESS_DIR)
        if p.returncode != 0:
            self.problems.append(("infra", "harness does not build against /repo: " + p.stderr[-1500:]))
            return False
        return True

    def campaign(self):
        """Corpus first, then random campaigns; returns list of (trace_text, model_output, stats)."""
        results = []
        # corpus
        for f in sorted(glob.glob(os.path.join(VERIF, "corpus", "*.ops"))):
            try:
                trace, out = execute_replay(open(f).read(), "corpus")
            except RuntimeError as e:
                self.corpus_crash(f, str(e))      # the driver died on a corpus history: that history is the replay
                continue
            results.append((trace, out, None, "corpus:" + os.path.basename(f)))
        # random campaigns, one process per slice
        plan = self.cfg["campaign"][self.tier]
        procs = []
        import subprocess
        for i, (profile, count) in enumerate(plan):
            seed = self.seed * 1000 + i
            tp = os.path.join(WORK, "camp_%s_%d_%d.trace" % (self.prop, os.getpid(), i))
            sp = tp + ".stats"
            # "<profile>@http": the same generator, but the library keeps its default network hooks (reqwest, its own
            # JSON) and talks to the harness's scripted HTTP server on 127.0.0.1 (harness/src/http.rs)
            prof_name, _, transport = profile.partition("@")
            pr = subprocess.Popen([DRIVE_BIN, "--seed", str(seed), "--count", str(count), "--profile", prof_name,
                                   "--out", tp, "--stats", sp, "--journal", tp + ".journal"] + (["--http"] if transport == "http" else []),
                                  stdout=subprocess.DEVNULL, stderr=subprocess.PIPE, env=ENV)
            procs.append((pr, tp, sp, profile, seed))
        for pr, tp, sp, profile, seed in procs:
            _, err = pr.communicate()
            jp = tp + ".journal"
            if pr.returncode == 4 and "HANG" in err.decode():
                self.hung(jp, profile, seed, err.decode())
                for f in (tp, sp, jp):
                    if os.path.exists(f):
                        os.unlink(f)
                continue
            if pr.returncode != 0:
                self.crashed(jp, profile, seed, err.decode(), pr.returncode)
                for f in (tp, sp, jp):
                    if os.path.exists(f):
                        os.unlink(f)
                continue
            if os.path.exists(jp):
                os.unlink(jp)
            trace = open(tp).read()
            out = run([MODEL_BIN, "replay"], inp=trace).stdout
            stats = json.load(open(sp)) if os.path.exists(sp) else None
            results.append((trace, out, stats, "%s:%d" % (profile, seed)))
            os.unlink(tp)
            if os.path.exists(sp):
                os.unlink(sp)
        if self.cfg.get("enumerate_schedules"):
            results += self.schedule_enumeration([r[0] for r in results if r[3].startswith("conc")])
        return results

    def schedule_enumeration(self, traces):
        """C11: for sampled concurrent episodes, force EVERY placement of the other thread's calls into the gaps
        of the update (one call: every gap; two calls: every ordered pair of gaps), instead of one random schedule."""
        limit = {"quick": 40, "thorough": 600}[self.tier]
        variants, episodes = [], 0
        for trace in traces:
            for b in split_blocks(trace):
                if episodes >= limit:
                    break
                ops = ops_of(b)
                pos = [i for i, o in enumerate(ops) if o.startswith("O conc ")]
                if not pos:
                    continue
                p = pos[0]
                m = re.match(r"O conc s=(\S+) (u=\S+) b=(\S+)", ops[p])
                if not m:
                    continue
                nb = 0 if m.group(3) == "~" else m.group(3).count(",") + 1
                if nb == 0 or nb > 2:
                    continue
                episodes += 1
                scheds = ["A" * i + "B" * 8 for i in range(10)] if nb == 1 else \
                         ["A" * i + "B" + "A" * j + "B" * 8 for i in range(9) for j in range(9 - i)]
                head = [l for l in b if l.startswith("L ")]
                for k, sc in enumerate(scheds):
                    variants += ["H %s-e%d %s" % (block_id(b), k, " ".join(b[0].split()[2:]))] + head + ops[:p] + \
                                ["O conc s=%s %s b=%s" % (sc, m.group(2), m.group(3)), "E"]
        if not variants:
            return []
        trace, out = execute_replay("\n".join(variants) + "\n", "enum_%s" % self.prop)
        self.ev["schedule_enumeration"] = {"episodes": episodes, "schedules_forced": sum(1 for l in variants if l.startswith("H "))}
        return [(trace, out, None, "conc-enumeration")]

    def hung(self, journal, profile, seed, err):
        """A call into the library did not return (the harness's watchdog ended the process): a deadlock.
        The journal holds the history; it is shrunk by re-running with a short watchdog."""
        text = open(journal).read() if os.path.exists(journal) else ""
        ops = [l for l in text.splitlines() if l.startswith("O ")]
        if not ops or "C12" not in set(self.cfg.get("monitors", [])):
            self.problems.append(("infra", "drive hung (profile %s seed %d): a call into the library did not return: %s" % (profile, seed, err[-300:])))
            return
        head = [l for l in text.splitlines() if l.startswith("H ") or l.startswith("L ")]
        sig = "hang:" + re.sub(r"[0-9]+", "N", ops[-1].split()[1])
        if any(v.get("signature") == sig for v in self.violations):
            return
        env = dict(ENV); env["VERIF_WATCHDOG_SECS"] = "6"
        def hangs(opl):
            rp = os.path.join(WORK, "hang_%d.ops" % os.getpid())
            open(rp, "w").write("\n".join(head + opl + ["E"]) + "\n")
            p = run([DRIVE_BIN, "--replay", rp, "--out", os.devnull], env=env)
            os.unlink(rp)
            return p.returncode == 4
        confirmed = hangs(ops)
        if confirmed:
            i, budget = 0, 40
            while i < len(ops) - 1 and budget > 0:
                budget -= 1
                cand = ops[:i] + ops[i + 1:]
                if hangs(cand):
                    ops = cand
                else:
                    i += 1
        body = "\n".join(head + ops + ["E"]) + "\n"
        path = self.save_replay("%s-%s.ops" % (self.prop, hashlib.sha1(sig.encode()).hexdigest()[:10]),
                                "# C12: the last call of this history never returned (deadlock; the harness's watchdog ended the process)\n# replay: tools/replay.sh <this file>  (%s)\n%s"
                                % ("re-run confirmed the hang" if confirmed else "hang NOT reproduced on re-run", body))
        self.problems.append(("monitor", "a call into the library did not return (profile %s seed %d)" % (profile, seed)))
        self.violations.append({"replay": path, "signature": sig, "why": "deadlock"})

    def corpus_crash(self, f, err):
        """The driver process died while it executed a history of the corpus (scenarios that the unmodified code accepts)."""
        name = os.path.basename(f)
        panic = [l for l in err.splitlines() if l.startswith("PANIC ")]
        why = (panic[0] if panic else err[-200:]).strip()
        for leftover in glob.glob(os.path.join(WORK, "corpus.%d.ops*" % os.getpid())):
            os.unlink(leftover)
        if "C13" in set(self.cfg.get("monitors", [])):
            body = "".join(l for l in open(f) if not l.startswith("#"))
            path = self.save_replay("%s-corpus-%s" % (self.prop, name),
                                    "# C13: the process died inside a call into the library: %s\n# replay: tools/replay.sh <this file>\n%s" % (why, body))
            self.problems.append(("monitor", "the process died inside a call into the library on corpus history %s: %s" % (name, why)))
            self.violations.append({"replay": path, "signature": "corpus-crash:" + name, "why": why})
        else:
            self.problems.append(("infra", "drive crashed on corpus history %s: %s" % (name, err[-300:])))

    def crashed(self, journal, profile, seed, err, rc=1):
        """The driver process died (a panic that cannot unwind aborts it; an invalid free or a wild pointer ends it
        with a signal): the journal holds the history."""
        panic_lines = [l for l in err.splitlines() if l.startswith("PANIC ")]
        why = (panic_lines[0] if panic_lines else err[-300:]).strip()
        text = open(journal).read() if os.path.exists(journal) else ""
        ops = [l for l in text.splitlines() if l.startswith("O ")]
        mons = set(self.cfg.get("monitors", []))
        # C13: any death of the process inside a call. C15: a death by signal without a panic, i.e. while memory handed
        # out by the library was read or released through the library's own free functions
        by_signal = rc < 0 and not panic_lines
        if by_signal and not why:
            why = "the process was ended by signal %d (no panic): invalid free or wild pointer" % (-rc)
        owner = "C13" if "C13" in mons else ("C15" if ("C15" in mons and by_signal) else None)
        if not ops or owner is None:
            self.problems.append(("infra", "drive crashed (profile %s seed %d): %s" % (profile, seed, err[-800:])))
            return
        head = [l for l in text.splitlines() if l.startswith("H ") or l.startswith("L ")]
        sig = "panic:" + re.sub(r"[0-9]+", "N", re.sub(r"`[^`]*`", "`..`", why))[:160]
        if any(v.get("signature") == sig for v in self.violations):
            return
        # shrink: drop operations while the replay still kills the process
        def dies(opl):
            rp = os.path.join(WORK, "crash_%d.ops" % os.getpid())
            open(rp, "w").write("\n".join(head + opl + ["E"]) + "\n")
            p = run([DRIVE_BIN, "--replay", rp, "--out", os.devnull], env=ENV)
            os.unlink(rp)
            return p.returncode != 0
        confirmed = dies(ops)
        if confirmed:
            i, budget = 0, 80
            while i < len(ops) - 1 and budget > 0:
                budget -= 1
                cand = ops[:i] + ops[i + 1:]
                if dies(cand):
                    ops = cand
                else:
                    i += 1
        body = "\n".join(head + ops + ["E"]) + "\n"
        path = self.save_replay("%s-%s.ops" % (self.prop, hashlib.sha1(sig.encode()).hexdigest()[:10]),
                                "# %s: the process died inside a call into the library: %s\n# replay: tools/replay.sh <this file>  (%s)\n%s"
                                % (owner, why, "re-run confirmed the crash" if confirmed else "crash NOT reproduced on re-run", body))
        self.problems.append(("monitor", "the process died inside a call into the library (profile %s seed %d): %s" % (profile, seed, why)))
        self.violations.append({"replay": path, "signature": sig, "why": why})

    # ---------------------------------------------------------------- decide
    def save_replay(self, name, text):
        d = os.path.join(VERIF, "evidence", "replays")
        os.makedirs(d, exist_ok=True)
        path = os.path.join(d, name)
        open(path, "w").write(text)
        return path

    def finish(self, coverage_extra):
        known_file = json.load(open(os.path.join(VERIF, "known_findings.json")))
        wall = time.time() - self.t0
        lines = []
        rc = 0
        for v in self.violations:
            match = None
            for k in known_file.get("findings", []):
                if k.get("status") == "known" and k["property"] == self.prop and k.get("match") and k["match"] in v.get("signature", ""):
                    match = k
            if match:
                lines.append("KNOWN-FINDING: property=%s %s" % (self.prop, match["what"]))
            else:
                rc = 1
                lines.append("VIOLATION property=%s replay=%s%s" % (self.prop, v["replay"], " no-failing-input-found" if v.get("no_input") else ""))
        cov = {
            "obligations": self.ev.get("obligations", 1),
            "discharged": self.ev.get("discharged", 0),
            "checker_cmd": "cd /verif/lean && lake build " + " ".join("UpdaterModel.Props.%s" % m for m in self.cfg["modules"])
                           + (" && lake env leanchecker <module>" if self.tier == "thorough" else ""),
            "trusted_base": props.TRUSTED_BASE + self.cfg.get("trusted_extra", []),
            "theorems": self.ev.get("theorems", []),
            "axioms_used": self.ev.get("axioms", []),
            "problems": [{"kind": k, "detail": d[:600]} for k, d in self.problems],
        }
        cov.update(coverage_extra)
        if "schedule_enumeration" in self.ev:
            cov["schedule_enumeration"] = self.ev["schedule_enumeration"]
        evidence = {
            "property_id": self.prop, "tier": self.tier, "seed": self.seed, "level": self.cfg.get("level", "proof"),
            "coverage": cov, "assumptions": self.cfg.get("assumptions", []), "wall_s": round(wall, 2),
            "violations": len([l for l in lines if l.startswith("VIOLATION")]),
        }
        os.makedirs(os.path.join(VERIF, "evidence"), exist_ok=True)
        json.dump(evidence, open(os.path.join(VERIF, "evidence", self.prop + ".json"), "w"), indent=1)
        for l in lines:
            print(l)
        print("%s %s tier=%s wall=%.1fs problems=%d violations=%d" % ("FAIL" if rc else "PASS", self.prop, self.tier, wall, len(self.problems), evidence["violations"]))
        return rc

    def run(self):
        os.makedirs(WORK, exist_ok=True)
        # replays of earlier runs of this check are stale: every run writes its own
        for f in glob.glob(os.path.join(VERIF, "evidence", "replays", self.prop + "-*")):
            os.unlink(f)
        lean_ok = self.lean()
        cov = {}
        kind = self.cfg.get("kind", "history")
        if kind == "history":
            cov = self.history_check(lean_ok)
        else:
            cov = props.SPECIAL[kind](self, lean_ok)
        # proof obligations that no longer check, with no concrete failing input found
        proof_problems = [d for k, d in self.problems if k in ("proof", "correspondence", "infra")]
        if proof_problems and not self.violations:
            text = "property %s is no longer shown to hold; what no longer checks:\n" % self.prop + "\n".join(proof_problems) + "\n"
            path = self.save_replay("%s-unproved-%d.txt" % (self.prop, self.seed), text)
            self.violations.append({"replay": path, "no_input": True, "signature": "unproved"})
        return self.finish(cov)

    def history_check(self, lean_ok):
        cov = {}
        if not os.path.exists(MODEL_BIN):
            self.problems.append(("infra", "model driver missing"))
            return cov
        if not self.harness():
            return cov
        fields = set(self.cfg.get("fields", ["ret", "net", "sj", "sje", "pj", "pd", "junk"]))
        monitors = set(self.cfg["monitors"])
        results = self.campaign()
        # if the model and the code disagree and nothing is rejected yet, search further (other seeds)
        def relevant(x, label):
            m = re.search(r"fields=(\S*)", x)
            fs = set(m.group(1).split(",")) if m else set(fields)
            if "@http" in label:
                fs.discard("locks")          # no callbacks on the library's thread: its action log has no network entries
            return fs & fields

        def quick_scan(res):
            d = j = 0
            for trace, out, stats, label in res:
                diffs, jf, bads, st = verdicts(out)
                for x in diffs:
                    if relevant(x, label):
                        d += 1
                j += len([y for y in jf if y["prop"] in monitors and y["side"] == "impl"])
            return d, j
        d0, j0 = quick_scan(results)
        rounds = 0
        while d0 and not j0 and rounds < 3:
            rounds += 1
            self.seed_shift = rounds
            saved = self.seed
            self.seed = saved + 7919 * rounds
            more = self.campaign()
            self.seed = saved
            results += more
            d0, j0 = quick_scan(results)
        hist = steps = http_hist = 0
        rel_diffs, other_diffs, jfails = [], 0, []
        op_kinds, ret_kinds = {}, {}
        net_under_lock = panics = 0
        samples = []
        distinct = set()
        for trace, out, stats, label in results:
            diffs, jf, bads, st = verdicts(out)
            hist += st.get("hists", 0)
            steps += st.get("steps", 0)
            if "@http" in label:
                http_hist += st.get("hists", 0)
            blocks = None
            if bads:
                self.problems.append(("infra", "driver could not parse harness output (%s): %s" % (label, bads[0][:300])))
            for d in diffs:
                if relevant(d, label):
                    rel_diffs.append((d, label))
                else:
                    other_diffs += 1
            for j in jf:
                if j["prop"] in monitors and j["side"] == "impl":
                    jfails.append((j, label, trace))
            if stats:
                for k, v in stats["op_kinds"].items():
                    op_kinds[k] = op_kinds.get(k, 0) + v
                for k, v in stats["ret_kinds"].items():
                    ret_kinds[k] = ret_kinds.get(k, 0) + v
                net_under_lock += stats["net_under_lock"]
                panics += stats["panics"]
            for b in split_blocks(trace):
                ops = ops_of(b)
                sig = hashlib.sha1("\n".join(ops).encode()).hexdigest()
                if len(ops) >= 3:
                    distinct.add(sig)
                if len(samples) < 3 and len(ops) >= 6:
                    samples.append({"history": block_id(b), "ops": [o[2:160] for o in ops[:12]]})
        # monitor rejections on implementation traces: concrete replays
        seen = set()
        for j, label, trace in jfails:
            sig = j["prop"] + ":" + normalize_why(j["why"])
            if sig in seen:
                continue
            seen.add(sig)
            blocks = {block_id(b): b for b in split_blocks(trace)}
            b = blocks.get(j["hist"])
            http = "@http" in label
            ops = shrink(b, j["prop"], max_rounds=60, http=http) if b else []
            text = make_replay(b, ops) if b else ""
            path = self.save_replay("%s-%s.ops" % (self.prop, hashlib.sha1(sig.encode()).hexdigest()[:10]),
                                    "# %s\n%s# replay: tools/replay.sh <this file>\n%s"
                                    % (j["why"], "# transport=http   (the library's default network hooks against the harness's scripted HTTP server)\n" if http else "", text))
            self.violations.append({"replay": path, "signature": sig, "why": j["why"]})
        if rel_diffs:
            d, label = rel_diffs[0]
            self.problems.append(("correspondence", "model and implementation disagree (%d steps, first in %s): %s" % (len(rel_diffs), label, d[:700])))
            if not self.violations:
                # targeted search: more histories judged by the monitor alone
                self.problems.append(("correspondence", "targeted search over %d histories found no trace rejected by the %s monitor" % (hist, ",".join(sorted(monitors)))))
        if panics:
            self.problems.append(("monitor", "%d panics observed in the library during the campaign" % panics))
            if "C13" in monitors:
                done = False
                for trace, out, stats, label in results:
                    for hid in (stats or {}).get("panic_histories", []):
                        blocks = {block_id(b): b for b in split_blocks(trace)}
                        if hid in blocks and not done:
                            done = True
                            path = self.save_replay("%s-thread-panic.ops" % self.prop,
                                                    "# C13: a thread of the library panicked during this history (%s)\n# replay: tools/replay.sh <this file>\n%s"
                                                    % (label, make_replay(blocks[hid])))
                            self.violations.append({"replay": path, "signature": "panic:thread", "why": "panic in a library thread"})
                if not done:
                    path = self.save_replay("%s-panics.txt" % self.prop, "%d panics in library threads during the campaign\n" % panics)
                    self.violations.append({"replay": path, "signature": "panic", "why": "panic in the library"})
        if net_under_lock and "C12" in monitors:
            path = self.save_replay("%s-net-under-lock.txt" % self.prop, "%d network callbacks were entered while the calling thread held the state lock\n" % net_under_lock)
            self.violations.append({"replay": path, "signature": "net-under-lock", "why": "network callback under the state lock"})
        if self.cfg.get("restart_fidelity"):
            import restart_fidelity
            n = self.cfg["restart_fidelity"][self.tier]
            text = "\n".join(r[0] for r in results if r[0] and not r[3].startswith("corpus"))
            checked, bad, blocks = restart_fidelity.campaign(text, n)
            cov["restart_fidelity"] = {"histories_rerun_with_one_process_per_launch": checked, "differing": len(bad)}
            if bad:
                hid, (i, op, a, b) = bad[0]
                path = self.save_replay("%s-restart-fidelity.ops" % self.prop,
                                        "# the in-process restart of the harness is not faithful: after call %d (%s)\n# in-process : %s\n# fresh procs: %s\n# replay: python3 tools/restart_fidelity.py <trace containing this history>\n%s"
                                        % (i, op[:80], a[:300], b[:300], make_replay(blocks[hid])))
                self.problems.append(("correspondence", "a history with restarts behaves differently when every launch runs in a fresh process (%d of %d histories; first: %s call %d): state outlives hooks::reset_config() or is lost by it; replay %s" % (len(bad), checked, hid, i, path)))
        if self.cfg.get("runtime_c12"):
            cov.update(props.special.c12_runtime(self, results))
        cov.update(evaluations=hist, distinct_nontrivial=len(distinct),
                   rule="histories generated by harness/src/gen.rs from VERIF_SEED (profiles %s); distinct = distinct op sequences, non-trivial = at least 3 operations" % [p for p, _ in self.cfg["campaign"][self.tier]],
                   samples=samples, steps_compared=steps, traces_validated_against_impl=hist,
                   disagreements_relevant=len(rel_diffs), disagreements_other_fields=other_diffs,
                   monitor_rejections=len(jfails), op_kinds=op_kinds, ret_kinds=ret_kinds,
                   net_calls_under_state_lock=net_under_lock, panics=panics,
                   compared_fields=sorted(fields), monitors=sorted(monitors))
        if http_hist:
            cov["transport"] = {"network_hooks": hist - http_hist, "real_http_on_loopback": http_hist,
                                "note": "real_http: the library's default hooks (reqwest, handle_network_result, serde on the wire) against the harness's scripted HTTP/1.1 server; failures are enacted as status codes, resets, malformed and truncated bodies, stalls"}
        return cov


def main():
    prop = sys.argv[1]
    tier = os.environ.get("VERIF_TIER", "quick")
    if "--tier" in sys.argv:
        tier = sys.argv[sys.argv.index("--tier") + 1]
    seed = int(os.environ.get("VERIF_SEED", "1"))
    c = Check(prop, tier, seed)
    sys.exit(c.run())


if __name__ == "__main__":
    main()
