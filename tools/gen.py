#!/usr/bin/env python3
"""Regenerates lean/UpdaterModel/Gen/*.lean from /repo's current sources (translators)."""
import os, sys
sys.path.insert(0, os.path.dirname(os.path.abspath(__file__)))
# translators are registered here as they are built
TRANSLATORS = []
try:
    import extract_abi
    TRANSLATORS.append(extract_abi.main)
except ImportError:
    pass
try:
    import extract_panics
    TRANSLATORS.append(extract_panics.main)
except ImportError:
    pass
try:
    import extract_consts
    TRANSLATORS.append(extract_consts.main)
except ImportError:
    pass
try:
    import extract_sites
    TRANSLATORS.append(extract_sites.main)
except ImportError:
    pass
rc = 0
for t in TRANSLATORS:
    rc |= t() or 0
sys.exit(rc)
