"""Checks that are not history campaigns (codec, ABI, schedules, crash points, ...)."""
import os, sys, json, subprocess, glob, hashlib, re
from common import *

CODEC_BIN = os.path.join(HARNESS_DIR, "target", "debug", "codec")


def codec_check(chk, lean_ok):
    cov = {}
    if not chk.harness():
        return cov
    plan = {"quick": [(["--count", "400"], "small"), (["--count", "30", "--big", "--e2e", "6"], "big")],
            "thorough": [(["--count", "6000", "--e2e", "200"], "small"), (["--count", "400", "--big", "--e2e", "40"], "big"),
                         (["--count", "12", "--huge", "--big", "--e2e", "3"], "huge")]}[chk.tier]
    total = diffs = 0
    stats_all = {}
    samples = []
    procs = []
    for i, (extra, label) in enumerate(plan):
        tp = os.path.join(WORK, "codec_%d_%d.txt" % (os.getpid(), i))
        sp = tp + ".stats"
        pr = subprocess.Popen([CODEC_BIN, "--seed", str(chk.seed * 100 + i), "--out", tp, "--stats", sp] + extra,
                              stdout=subprocess.PIPE, stderr=subprocess.PIPE, env=ENV, text=True)
        procs.append((pr, tp, sp, label))
    for pr, tp, sp, label in procs:
        out, err = pr.communicate()
        if pr.returncode != 0:
            chk.problems.append(("infra", "codec harness crashed (%s): %s" % (label, err[-600:])))
            continue
        # implementation-vs-oracle failures: the real tool + real library do not round-trip
        for line in out.splitlines():
            if line.startswith(("E2E-FAIL", "IMPL-ORACLE-FAIL")):
                path = chk.save_replay("C16-%s.txt" % hashlib.sha1(line.encode()).hexdigest()[:10], line + "\n")
                chk.violations.append({"replay": path, "signature": line[:60], "why": line[:200]})
        m = run([MODEL_BIN, "codec"], inp=open(tp).read())
        for line in m.stdout.splitlines():
            if line.startswith("STATS"):
                kv = dict(x.split("=") for x in line.split()[1:])
                total += int(kv["ok"]) + int(kv["diffs"]) + int(kv["bads"])
                diffs += int(kv["diffs"]) + int(kv["bads"])
            elif line.startswith(("DIFF", "BAD")):
                if len(samples) < 3:
                    samples.append(line[:300])
                chk.problems.append(("correspondence", "codec model and real crates disagree: " + line[:400]))
        if os.path.exists(sp):
            st = json.load(open(sp))
            for k, v in st.items():
                stats_all[k] = max(stats_all.get(k, 0), v) if k == "max_len" else stats_all.get(k, 0) + v
        first = open(tp).readline().split()
        if first and len(samples) < 3:
            samples.append({"kind": first[0], "older_len": (len(first[1]) // 2 if len(first) > 1 else 0), "line_prefix": " ".join(first)[:200]})
        os.unlink(tp)
        if os.path.exists(sp):
            os.unlink(sp)
    cov.update(evaluations=total, distinct_nontrivial=stats_all.get("pairs", 0),
               rule="random / structured (base, new) pairs incl. identical, unrelated, empty target, shared prefix/suffix, repeated blocks; per pair: real match list, "
                    "real raw diff, model encode/decode/tiling/sha compared; plus damaged streams through the real and the model decoder; distinct = pairs generated",
               samples=samples or ["(none)"], disagreements=diffs, traces_validated_against_impl=total, codec_stats=stats_all)
    return cov


SPECIAL = {"codec": codec_check}
