"""Checks that are not history campaigns (codec, ABI, schedules, crash points, ...)."""
import os, sys, json, subprocess, glob, hashlib, re
from common import *

CODEC_BIN = os.path.join(HARNESS_DIR, "target", "debug", "codec")


def tool_hash_check(chk):
    """C16, 'the hash the tool reports is the hash the library computes': the packaging tool's own binary (patch crate,
    string_patch) is built from /repo and run; the hash it prints must be the SHA-256 of the new binary, spelled as the
    library's check_hash reads it (64 hex digits), and the patch bytes it prints must be what the library function gives."""
    tdir = os.path.join(HARNESS_DIR, "target", "patchbins")
    pr = run(["cargo", "build", "--offline", "--manifest-path", "/repo/patch/Cargo.toml", "--bins", "--target-dir", tdir], env=ENV)
    exe = os.path.join(tdir, "debug", "string_patch")
    if pr.returncode != 0 or not os.path.exists(exe):
        chk.problems.append(("infra", "could not build the packaging tool's binaries: " + pr.stderr[-300:]))
        return 0
    n = {"quick": 48, "thorough": 400}[chk.tier]
    runs = 0
    for i in range(n):
        older, newer = "hello world", "hello world %d" % i
        if i % 5 == 4:
            older, newer = "base %d %s" % (i, "x" * (i % 17)), "%s new %d" % ("y" * (i % 13), i * 7919)
        out = run([exe, older, newer], env=ENV)
        runs += 1
        m = re.search(r"^Hash \(new\): (\S*)$", out.stdout, flags=re.M)
        want = hashlib.sha256(newer.encode()).hexdigest()
        got = m.group(1) if m else "(no hash line; rc=%d)" % out.returncode
        if got != want:
            line = "TOOL-HASH-FAIL string_patch %r %r reports hash %s, the SHA-256 of the new binary is %s" % (older, newer, got, want)
            path = chk.save_replay("C16-tool-%s.txt" % hashlib.sha1(line.encode()).hexdigest()[:10],
                                   line + "\n# replay: cargo build --manifest-path /repo/patch/Cargo.toml --bins --target-dir <dir> && <dir>/debug/string_patch %r %r\n" % (older, newer))
            chk.violations.append({"replay": path, "signature": "tool-hash", "why": line[:200]})
            break
    return runs


def codec_check(chk, lean_ok):
    cov = {}
    if not chk.harness():
        return cov
    plan = {"quick": [(["--count", "400"], "small"), (["--count", "30", "--big", "--e2e", "6"], "big")],
            "thorough": [(["--count", "6000", "--e2e", "200"], "small"), (["--count", "400", "--big", "--e2e", "40"], "big"),
                         (["--count", "12", "--huge", "--big", "--e2e", "3"], "huge")]}[chk.tier]
    total = diffs = 0
    stats_all = {}
    samples = []
    procs = []
    for i, (extra, label) in enumerate(plan):
        tp = os.path.join(WORK, "codec_%d_%d.txt" % (os.getpid(), i))
        sp = tp + ".stats"
        pr = subprocess.Popen([CODEC_BIN, "--seed", str(chk.seed * 100 + i), "--out", tp, "--stats", sp] + extra,
                              stdout=subprocess.PIPE, stderr=subprocess.PIPE, env=ENV, text=True)
        procs.append((pr, tp, sp, label))
    for pr, tp, sp, label in procs:
        out, err = pr.communicate()
        if pr.returncode != 0:
            chk.problems.append(("infra", "codec harness crashed (%s): %s" % (label, err[-600:])))
            continue
        # implementation-vs-oracle failures: the real tool + real library do not round-trip
        for line in out.splitlines():
            if line.startswith(("E2E-FAIL", "IMPL-ORACLE-FAIL")):
                path = chk.save_replay("C16-%s.txt" % hashlib.sha1(line.encode()).hexdigest()[:10], line + "\n")
                chk.violations.append({"replay": path, "signature": line[:60], "why": line[:200]})
        m = run([MODEL_BIN, "codec"], inp=open(tp).read())
        for line in m.stdout.splitlines():
            if line.startswith("STATS"):
                kv = dict(x.split("=") for x in line.split()[1:])
                total += int(kv["ok"]) + int(kv["diffs"]) + int(kv["bads"])
                diffs += int(kv["diffs"]) + int(kv["bads"])
            elif line.startswith(("DIFF", "BAD")):
                if len(samples) < 3:
                    samples.append(line[:300])
                chk.problems.append(("correspondence", "codec model and real crates disagree: " + line[:400]))
        if os.path.exists(sp):
            st = json.load(open(sp))
            for k, v in st.items():
                stats_all[k] = max(stats_all.get(k, 0), v) if k == "max_len" else stats_all.get(k, 0) + v
        first = open(tp).readline().split()
        if first and len(samples) < 3:
            samples.append({"kind": first[0], "older_len": (len(first[1]) // 2 if len(first) > 1 else 0), "line_prefix": " ".join(first)[:200]})
        os.unlink(tp)
        if os.path.exists(sp):
            os.unlink(sp)
    tool = tool_hash_check(chk)
    stats_all["tool_runs"] = tool
    cov.update(evaluations=total, distinct_nontrivial=stats_all.get("pairs", 0),
               rule="random / structured (base, new) pairs incl. identical, unrelated, empty target, shared prefix/suffix, repeated blocks; per pair: real match list, "
                    "real raw diff, model encode/decode/tiling/sha compared; plus damaged streams through the real and the model decoder; distinct = pairs generated",
               samples=samples or ["(none)"], disagreements=diffs, traces_validated_against_impl=total, codec_stats=stats_all)
    return cov


def abi_check(chk, lean_ok):
    """C15: translator tables (already regenerated + proved in chk.lean()), exported symbols of the
    built cdylib, sizeof/offsetof and constants seen by a C compiler, ownership under valgrind."""
    cov = {}
    libdir = os.path.join(HARNESS_DIR, "target-lib")
    header = "/repo/library/include/updater.h"
    before = open(header, "rb").read()
    with open(os.path.join(WORK, ".cargo.lock"), "w") as lk:
        import fcntl
        fcntl.flock(lk, fcntl.LOCK_EX)
        p = run(["cargo", "build", "-p", "updater", "--offline", "--target-dir", libdir], cwd="/repo")
    after = open(header, "rb").read()
    if after != before:
        # build.rs regenerated a different header: the checked-in header did not match the Rust source
        open(header, "wb").write(before)
        path = chk.save_replay("C15-header-stale.txt", "library/include/updater.h in the tree differs from what cbindgen generates from the current Rust source\n")
        chk.violations.append({"replay": path, "signature": "header-stale", "why": "checked-in header differs from the Rust definitions"})
    if p.returncode != 0:
        chk.problems.append(("infra", "library does not build: " + p.stderr[-800:]))
        return cov
    evals = 0
    samples = []
    # exported symbols vs what Dart looks up
    nm = run(["nm", "-D", "--defined-only", os.path.join(libdir, "debug", "libupdater.so")]).stdout
    exported = set(l.split()[-1] for l in nm.splitlines() if " T " in l and "shorebird_" in l)
    dump = run([MODEL_BIN, "abi"]).stdout
    model = {}
    dart = rust = []
    for line in dump.splitlines():
        parts = line.split()
        if parts[0] == "LAYOUT":
            model[parts[1]] = dict(kv.split("=") for kv in parts[2:] if "=" in kv)
        elif parts[0] == "ABIDIFF":
            # a declaration on which Rust, the header and the Dart bindings disagree: the concrete witness of a
            # failed `header_agrees_with_rust` / `dart_agrees_with_rust` / `structs_agree`
            what = " ".join(parts[1:3]).rstrip(":")
            sig = "abidiff:" + what
            if not any(v.get("signature") == sig for v in chk.violations):
                path = chk.save_replay("C15-%s.txt" % re.sub(r"[^A-Za-z0-9_]+", "-", what),
                                       "# C15: the C ABI differs between the Rust definitions, the generated header and the Dart bindings\n"
                                       "# witness (tables regenerated from /repo by tools/extract_abi.py; `model abi` prints the disagreeing declarations):\n%s\n"
                                       "# replay: python3 tools/gen.py && lean/.lake/build/bin/model abi | grep ABIDIFF\n" % line[8:])
                chk.violations.append({"replay": path, "signature": sig, "why": line[8:200]})
        elif parts[0] == "DARTFNS":
            dart = parts[1:]
        elif parts[0] == "RUSTFNS":
            rust = parts[1:]
    missing = [f for f in dart if f not in exported]
    evals += len(dart)
    if missing:
        path = chk.save_replay("C15-missing-symbols.txt", "symbols looked up by the Dart bindings but not exported by the built library: %s\n" % missing)
        chk.violations.append({"replay": path, "signature": "missing-symbol", "why": "Dart looks up %s" % missing})
    if set(rust) != exported:
        chk.problems.append(("correspondence", "translator's Rust function list %s differs from the symbols exported by the built library %s" % (sorted(rust), sorted(exported))))
    # C compiler's view of the header vs the model's layout function
    exe = os.path.join(WORK, "abi_test")
    c = run(["cc", "-O0", "-g", "-I/repo/library/include", os.path.join(VERIF, "cabi", "abi_test.c"),
             os.path.join(libdir, "debug", "libupdater.a"), "-lpthread", "-ldl", "-lm", "-o", exe])
    if c.returncode != 0:
        chk.problems.append(("correspondence", "C program does not compile against the header / link against the library: " + c.stderr[-800:]))
        return cov
    import shutil, tempfile
    scratch = tempfile.mkdtemp(prefix="verif-abi-", dir="/dev/shm" if os.path.isdir("/dev/shm") else None)
    iters = "3" if chk.tier == "quick" else "25"
    try:
        r = run([exe, os.path.join(scratch, "a"), iters])
        got = {}
        results = {}
        for line in r.stdout.splitlines():
            parts = line.split()
            if parts and parts[0] == "LAYOUT":
                got[parts[1]] = dict(kv.split("=") for kv in parts[2:])
            elif parts and parts[0] in ("RESULT", "CONST"):
                results.update(dict(kv.split("=", 1) for kv in parts[1:] if "=" in kv))
        samples.append({"c_layouts": got, "c_results": results})
        for name, lay in got.items():
            evals += 1
            if model.get(name) != lay:
                path = chk.save_replay("C15-layout-%s.txt" % name, "struct %s: C compiler sees %s, model layout of the Rust definition is %s\n" % (name, lay, model.get(name)))
                chk.violations.append({"replay": path, "signature": "layout-" + name, "why": "layout mismatch for " + name})
        expect = {"error": "-1", "no_update": "0", "installed": "1", "had_error": "2", "bad_patch": "3", "uninit_path_null": "1", "refused_inits": "8",
                  "init": "1", "second_init": "0", "next": "1", "current": "0", "good_paths": iters, "error_results": iters,
                  "current_after_start": "1", "check": "0", "status": "-1"}
        for k, v in expect.items():
            evals += 1
            if results.get(k) != v:
                path = chk.save_replay("C15-cabi-%s.txt" % k, "C program: %s=%s, expected %s\nfull output:\n%s" % (k, results.get(k), v, r.stdout[-1500:]))
                chk.violations.append({"replay": path, "signature": "cabi-" + k, "why": "C ABI run: %s=%s expected %s" % (k, results.get(k), v)})
        # ownership under valgrind memcheck: no invalid free, nothing definitely lost
        vg = run(["valgrind", "--leak-check=full", "--errors-for-leak-kinds=definite", "--error-exitcode=9", "-q",
                  exe, os.path.join(scratch, "b"), iters], timeout=1500)
        evals += 1
        vtxt = vg.stderr
        bad = [l for l in vtxt.splitlines() if "Invalid free" in l or "definitely lost" in l or "Invalid read" in l or "Invalid write" in l or "Mismatched free" in l]
        cov["valgrind"] = {"exit": vg.returncode, "flagged_lines": bad[:5], "iterations": int(iters)}
        if vg.returncode == 9 or bad:
            path = chk.save_replay("C15-valgrind.txt", vtxt[-4000:])
            chk.violations.append({"replay": path, "signature": "valgrind", "why": "valgrind memcheck reports an invalid free or a definite leak"})
        if chk.tier == "thorough":
            asan = os.path.join(WORK, "abi_test_asan")
            c2 = run(["clang", "-fsanitize=address", "-O0", "-g", "-I/repo/library/include", os.path.join(VERIF, "cabi", "abi_test.c"),
                      os.path.join(libdir, "debug", "libupdater.a"), "-lpthread", "-ldl", "-lm", "-o", asan])
            if c2.returncode == 0:
                a = run([asan, os.path.join(scratch, "c"), "10"], env=dict(ENV, ASAN_OPTIONS="detect_leaks=0"))
                cov["asan"] = {"exit": a.returncode}
                if a.returncode != 0 and "AddressSanitizer" in a.stderr:
                    path = chk.save_replay("C15-asan.txt", a.stderr[-4000:])
                    chk.violations.append({"replay": path, "signature": "asan", "why": "AddressSanitizer report"})
    finally:
        shutil.rmtree(scratch, ignore_errors=True)
    # status codes actually delivered through the C struct for each outcome, over lifecycle histories
    hcov = chk.history_check(lean_ok)
    evals += hcov.get("evaluations", 0)
    cov["history_campaign"] = {k: hcov.get(k) for k in ("evaluations", "steps_compared", "monitor_rejections", "ret_kinds")}
    cov.update(evaluations=evals, distinct_nontrivial=len(dart) + len(got),
               rule="every symbol the Dart bindings look up (nm -D of the built cdylib), every C-visible struct (sizeof/offsetof from a C compiler vs the Lean layout model), "
                    "the five constants, and an alloc/free call sequence over every function returning owned memory under valgrind memcheck",
               samples=samples, exported_symbols=sorted(exported), dart_lookups=dart)
    return cov


def crash_check(chk, lean_ok):
    """C04: process-death experiments on the real library under the LD_PRELOAD interposer, judged by `model crash`."""
    import crash as crashmod
    cov = {}
    if not chk.harness():
        return cov
    if not build_interposer(chk):
        return cov
    # `reissue`: a server that serves other bytes under a number it used before — after a release change whose removal of
    # patches/ failed, the file in place is then NOT the one the new release verified under that number
    plan = {"quick": ([("lifecycle", 60), ("rollback", 40), ("mixed", 40), ("reissue", 40)], 260),
            "thorough": ([("lifecycle", 400), ("rollback", 300), ("mixed", 300), ("signing", 150), ("release", 150), ("reissue", 300)], 4500)}[chk.tier]
    traces = []
    for i, (profile, count) in enumerate(plan[0]):
        tp = os.path.join(WORK, "crash_%d_%d.trace" % (os.getpid(), i))
        pr = run([DRIVE_BIN, "--seed", str(chk.seed * 1000 + 50 + i), "--count", str(count), "--profile", profile, "--out", tp], env=ENV)
        if pr.returncode != 0:
            chk.problems.append(("infra", "drive crashed generating histories: " + pr.stderr[-300:]))
            continue
        traces.append(open(tp).read())
        os.unlink(tp)
    results = []
    for f in sorted(glob.glob(os.path.join(VERIF, "corpus", "*.kx"))):      # minimised past failures first
        b, p, nv, mode, lines = crashmod.replay_block(f, "corpus-" + os.path.basename(f).split(".")[0])
        results.append(("corpus-" + os.path.basename(f).split(".")[0], b, p, nv, mode, lines))
    results += crashmod.campaign("\n".join(traces), chk.seed, plan[1])
    text = []
    index = {}
    for eid, block, p, nv, mode, lines in results:
        if lines:
            text += lines
            index[eid] = (block, p, nv, mode)
    out = run([MODEL_BIN, "crash"], inp="\n".join(text) + "\n").stdout
    experiments = points = diffs = jfails = 0
    seen = set()
    modes = {}
    for line in out.splitlines():
        if line.startswith("STATS"):
            kv = dict(x.split("=") for x in line.split()[1:])
            experiments, points, diffs, jfails = int(kv["hists"]), int(kv["steps"]), int(kv["diffs"]), int(kv["jfails"])
        elif line.startswith("J C04 "):
            eid = line.split()[2]
            why = line.split(" ", 5)[5] if len(line.split(" ", 5)) > 5 else line
            sig = "C04:" + re.sub(r"[0-9]+", "N", why.split("C04:")[-1])[:120]
            if sig in seen or eid not in index:
                continue
            seen.add(sig)
            block, p, nv, mode = index[eid]
            path = chk.save_replay("C04-%s.kx" % hashlib.sha1(sig.encode()).hexdigest()[:10], crashmod.make_replay_file(block, p, nv, mode, why))
            chk.violations.append({"replay": path, "signature": sig, "why": why})
        elif line.startswith(("XDIFF", "XBAD")):
            if not any(k == "correspondence" for k, _ in chk.problems):
                chk.problems.append(("correspondence", "the real library's state files at a process death are not a crash state of the model: " + line[:600]))
    for eid, block, p, nv, mode, lines in results:
        modes[mode + ("+release-change" if nv else "")] = modes.get(mode + ("+release-change" if nv else ""), 0) + 1
    op_kinds = {}
    for eid, block, p, nv, mode, lines in results:
        k = ops_of(block)[p].split()[1]
        op_kinds[k] = op_kinds.get(k, 0) + 1
    cov.update(evaluations=points, distinct_nontrivial=points,
               rule="one evaluation = one fault: the real library killed immediately before (mode kill) or half-way through (torn) its k-th mutating file-system call of a launch [init ; call], or that call failing with EIO/ENOSPC while execution continues (eio; judged by the conclusion and the invariant of eio_safe_* / eio_inv), followed by a real re-launch; k enumerates every such call of the launch",
               experiments=experiments, crash_points=points, disagreements_relevant=diffs, monitor_rejections=jfails,
               experiment_kinds=modes, interrupted_calls=op_kinds,
               samples=[{"experiment": eid, "interrupted_call": ops_of(block)[p][2:80], "release_change": bool(nv), "mode": mode}
                        for eid, block, p, nv, mode, lines in results[:3]])
    return cov


def build_interposer(chk):
    so = os.path.join(VERIF, "interpose", "fsfault.so")
    b = run(["gcc", "-shared", "-fPIC", "-O2", "-o", so, os.path.join(VERIF, "interpose", "fsfault.c"), "-ldl"])
    if b.returncode != 0 or not os.path.exists(so):
        chk.problems.append(("infra", "cannot build the interposer: " + b.stderr[-400:]))
        return False
    return True


def c12_runtime(chk, results):
    """C12, the half a trace-level theorem cannot exhibit.
    (a) `drive --hung`: an update is parked inside its event / patch-check / download callback (a hung
        connection); every other exported call, issued from another thread, must return within 10 s, and a second
        update must answer 'already in progress'.
    (b) error paths: for sampled positions of the campaign's histories, the launch is re-run with its k-th mutating
        file-system call failing with EIO, for every k; a call that then never returns (the harness's watchdog ends
        the process) is a deadlock — an error path that re-enters or does not release a lock."""
    import crash as crashmod
    cov = {}
    cov["hung_update_scenario"] = {"stages": ["event", "check", "download"], "limit_ms": 10000,
                                   "transports": {}}
    # once with the network callbacks parked, once over real HTTP with the server holding the update's connection open and silent
    for tag, extra in (("callbacks", []), ("real-http", ["--http"])):
        p = run([DRIVE_BIN] + extra + ["--hung"], env=ENV, timeout=900)
        lines = [l for l in p.stdout.splitlines() if l.startswith("HUNG ")]
        bad = [l for l in lines if "verdict=ok" not in l]
        cov["hung_update_scenario"]["transports"][tag] = {"calls_timed": len(lines), "blocked_or_wrong": len(bad)}
        if p.returncode != 0 or len(lines) < 27 or bad:
            why = bad[0] if bad else "the scenario did not complete: rc=%d %s" % (p.returncode, p.stderr[-300:].replace("\n", " "))
            path = chk.save_replay("C12-hung-update-%s.txt" % tag, "# hung-scenario%s\n# C12: %s\n# replay: tools/replay.sh <this file>   (runs the harness's `drive %s--hung`)\n%s\n"
                                   % (" http" if extra else "", why, "--http " if extra else "", "\n".join(lines)))
            chk.violations.append({"replay": path, "signature": "hung-update:" + tag + ":" + re.sub(r"ms=[0-9]+", "ms=N", why)[:120], "why": why})
    if not build_interposer(chk):
        return cov
    text = "\n".join(r[0] for r in results if r[0])
    n = {"quick": 48, "thorough": 600}[chk.tier]
    os.environ["VERIF_WATCHDOG_SECS"] = "8"
    ENV["VERIF_WATCHDOG_SECS"] = "8"
    try:
        res = crashmod.campaign(text, chk.seed, n, release_change_pct=10, torn_pct=0, eio_pct=100)
    finally:
        ENV.pop("VERIF_WATCHDOG_SECS", None)
        os.environ.pop("VERIF_WATCHDOG_SECS", None)
    faults = hangs = 0
    seen = set()
    for eid, block, pos, nv, mode, lines in res:
        for l in lines or []:
            if not l.startswith("X "):
                continue
            faults += 1
            if "ABNORMAL" in l and ("HANG" in l or "rc=4" in l or "timed out" in l):
                hangs += 1
                call = ops_of(block)[pos].split()[1]
                sig = "eio-hang:" + call
                if sig in seen:
                    continue
                seen.add(sig)
                why = "C12: after a failed file-system operation (%s) a call never returned: %s" % (l.split("|")[0].strip(), l.split("|", 1)[1].strip()[:200])
                path = chk.save_replay("C12-%s.kx" % hashlib.sha1(sig.encode()).hexdigest()[:10], crashmod.make_replay_file(block, pos, nv, mode, why))
                chk.violations.append({"replay": path, "signature": sig, "why": why})
    cov["error_path_scan"] = {"experiments": len(res), "faults_injected": faults, "calls_that_never_returned": hangs}
    return cov


SPECIAL = {"codec": codec_check, "abi": abi_check, "crash": crash_check}
