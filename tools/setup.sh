#!/bin/sh
# Builds the framework from files on disk only (offline): Lean model + proofs + driver, Rust harness.
set -e
export CARGO_NET_OFFLINE=true
cd /verif
mkdir -p work evidence/replays
python3 tools/gen.py
(cd lean && lake build UpdaterModel model)
(cd harness && cargo build --offline)
(cd /repo && cargo build -p updater --offline --target-dir /verif/harness/target-lib)
echo setup-ok
