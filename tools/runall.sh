#!/bin/sh
# runs every registered check (quick tier) and prints one line per check
cd /verif
for p in $(python3 -c "
import json
print(' '.join(c['property_id'] for c in json.load(open('MANIFEST.json'))['checks']))"); do
  python3 tools/run.py $p --tier ${1:-quick} 2>&1 | tail -1
done
