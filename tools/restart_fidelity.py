#!/usr/bin/env python3
"""restart_fidelity.py — is the harness's in-process `restart` (hooks::reset_config) a faithful stand-in
for a real process restart?

Histories of a `drive` trace are re-executed with every launch in a FRESH process (`crash run` over a
persistent directory, one process per segment between two `restart` ops) and the observation after every call
is compared, token by token, with what the single-process run recorded. Any difference means state survives
`reset_config()` that a real restart would lose (or the other way round) — e.g. a new process-wide static in
the library — and the in-process campaigns would then misjudge histories with restarts."""
import os, sys, subprocess, shutil, re
sys.path.insert(0, os.path.dirname(os.path.abspath(__file__)))
from common import *

CRASH_BIN = os.path.join(HARNESS_DIR, "target", "debug", "crash")


def r_lines(block):
    return [l for l in block if l.startswith("R ")]


def canon(r):
    # the action log of the calling thread and timing-dependent background counters are per-process details
    toks = [t for t in r.split() if not t.startswith(("la=", "lb="))]
    return " ".join(toks)


def check_block(block, work, tag):
    """Returns None if faithful, else (op index, op, in-process observation, fresh-process observation)."""
    ops = ops_of(block)
    rs = r_lines(block)
    # skipped: damage ops that replay an earlier version of a state file from the runner's own memory (per process)
    if len(rs) != len(ops) or any(o.startswith(("O dmg pj-stale", "O dmg sj-stale")) for o in ops):
        return "skip"
    head = [l for l in block if l.startswith("L ")]
    root = os.path.join(work, "rf-%s" % tag)
    shutil.rmtree(root, ignore_errors=True)
    os.makedirs(root)
    seg, segs, idx = [], [], []
    for i, o in enumerate(ops):
        if o.startswith("O restart"):
            segs.append((seg, idx)); seg, idx = [], []
        else:
            seg.append(o); idx.append(i)
    segs.append((seg, idx))
    try:
        for seg, idx in segs:
            if not seg:
                continue
            opsf = root + ".ops"
            open(opsf, "w").write("\n".join(head + seg) + "\n")
            p = subprocess.run([CRASH_BIN, "run", "--root", root, "--ops", opsf], capture_output=True, text=True, env=ENV, timeout=300)
            os.unlink(opsf)
            got = [l for l in p.stdout.splitlines() if l.startswith("R ")]
            if p.returncode != 0 or len(got) != len(seg):
                return (idx[min(len(got), len(idx) - 1)], seg[min(len(got), len(seg) - 1)], "(in-process run completed)", "fresh process ended with rc=%d after %d of %d calls: %s" % (p.returncode, len(got), len(seg), p.stderr[-200:]))
            for k, (a, b) in enumerate(zip(got, [rs[i] for i in idx])):
                if canon(a) != canon(b):
                    return (idx[k], seg[k], canon(b), canon(a))
    finally:
        shutil.rmtree(root, ignore_errors=True)
    return None


def _one(args):
    b, work, tag = args
    try:
        return (block_id(b), check_block(b, work, tag))
    except Exception as e:
        return (block_id(b), (0, "?", "orchestrator", repr(e)[:200]))


def campaign(trace_text, n, workers=16, work="/dev/shm"):
    from concurrent.futures import ProcessPoolExecutor
    blocks = [b for b in split_blocks(trace_text) if any(o.startswith("O restart") for o in ops_of(b))][:n]
    with ProcessPoolExecutor(max_workers=workers) as ex:
        res = list(ex.map(_one, [(b, work, "%d-%d" % (os.getpid(), i)) for i, b in enumerate(blocks)]))
    checked = [r for r in res if r[1] != "skip"]
    bad = [r for r in checked if r[1] is not None]
    return len(checked), bad, {block_id(b): b for b in blocks}


if __name__ == "__main__":
    text = open(sys.argv[1]).read()
    n, bad, _ = campaign(text, int(sys.argv[2]) if len(sys.argv) > 2 else 50)
    print("histories with restarts re-run with one process per launch:", n, " differing:", len(bad))
    for hid, (i, op, a, b) in bad[:5]:
        print(hid, "op", i, op[:100]); print("   in-process :", a[:400]); print("   fresh procs:", b[:400])
