#!/usr/bin/env python3
"""try_seeded.py <seeded-id> [prop ...]: apply a seeded change to /repo, run the checks, undo it,
and record which checks raised an alarm in seeded/<id>/result.json."""
import sys, os, json, subprocess, shutil, time
sys.path.insert(0, os.path.dirname(os.path.abspath(__file__)))
import props
sid = sys.argv[1]
which = sys.argv[2:] or [p for p, c in props.PROPS.items() if c.get("kind", "history") == "history"]
d = "/verif/seeded/" + sid
st = subprocess.run(["git", "-C", "/repo", "status", "--porcelain"], capture_output=True, text=True).stdout.strip()
assert st == "", "/repo not clean: " + st
ev_backup = "/verif/work/evidence_backup_%d" % os.getpid()
shutil.copytree("/verif/evidence", ev_backup)
subprocess.run(["git", "-C", "/repo", "apply", d + "/patch.diff"], check=True)
res = {}
try:
    procs = {}
    for p in which:
        procs[p] = subprocess.Popen([sys.executable, "/verif/tools/run.py", p, "--tier", "quick"], cwd="/verif",
                                    stdout=subprocess.PIPE, stderr=subprocess.STDOUT, text=True)
        time.sleep(0.5)
    for p, pr in procs.items():
        out, _ = pr.communicate()
        lines = [l for l in out.splitlines() if l.startswith(("VIOLATION", "KNOWN", "PASS", "FAIL"))]
        res[p] = {"rc": pr.returncode, "lines": lines}
        ev = "/verif/evidence/%s.json" % p
        if pr.returncode != 0 and os.path.exists(ev):
            e = json.load(open(ev))
            res[p]["problems"] = e["coverage"].get("problems", [])[:3]
finally:
    subprocess.run(["git", "-C", "/repo", "checkout", "--", "."], check=True)
    shutil.rmtree("/verif/evidence")
    shutil.move(ev_backup, "/verif/evidence")
caught = sorted(p for p, r in res.items() if r["rc"] != 0)
json.dump({"seeded": sid, "checks_run": which, "caught_by": caught, "detail": res}, open(d + "/result.json", "w"), indent=1)
print(sid, "caught by:", caught)
for p in caught:
    for l in res[p]["lines"]:
        print("  ", p, l[:200])
