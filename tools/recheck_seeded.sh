#!/bin/sh
# recheck_seeded.sh: every seeded change once more against its target property's quick check (HEAD of /verif).
# Output: one line per change: <id> <prop> caught=<yes|NO> concrete=<n>
cd /verif
for d in seeded/*/; do
  id=$(basename $d)
  [ -f seeded/$id/meta.json ] || continue
  prop=$(python3 -c "import json;print(json.load(open('seeded/$id/meta.json'))['breaks_property'])")
  python3 tools/try_seeded.py $id $prop > /tmp/recheck_$id.log 2>&1
  python3 - "$id" "$prop" <<'PY'
import json,sys
sid,prop=sys.argv[1],sys.argv[2]
r=json.load(open('/verif/seeded/%s/result.json'%sid))
d=r['detail'].get(prop,{})
conc=[l for l in d.get('lines',[]) if l.startswith('VIOLATION') and 'no-failing-input-found' not in l]
print(sid, prop, 'caught=%s' % ('yes' if d.get('rc') else 'NO'), 'concrete=%d' % len(conc))
PY
  git -C /repo status --porcelain
done
