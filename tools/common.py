"""Shared helpers for the /verif checks."""
import json, os, subprocess, sys, time, re

VERIF = os.path.dirname(os.path.dirname(os.path.abspath(__file__)))
LEAN_DIR = os.path.join(VERIF, "lean")
HARNESS_DIR = os.path.join(VERIF, "harness")
WORK = os.path.join(VERIF, "work")
MODEL_BIN = os.path.join(LEAN_DIR, ".lake", "build", "bin", "model")
DRIVE_BIN = os.path.join(HARNESS_DIR, "target", "debug", "drive")
ENV = dict(os.environ, CARGO_NET_OFFLINE="true")


def run(cmd, cwd=None, inp=None, timeout=None, check=False, env=None):
    p = subprocess.run(cmd, cwd=cwd, input=inp, capture_output=True, text=True, timeout=timeout, env=env or ENV)
    if check and p.returncode != 0:
        raise RuntimeError("command failed: %s\n%s\n%s" % (cmd, p.stdout[-4000:], p.stderr[-4000:]))
    return p


def split_blocks(text):
    """Split a trace into history blocks (lists of lines, H..E)."""
    blocks, cur = [], []
    for line in text.splitlines():
        if line.startswith("H "):
            cur = [line]
        elif line == "E":
            cur.append(line)
            blocks.append(cur)
            cur = []
        elif cur:
            cur.append(line)
    return blocks


def block_id(block):
    return block[0].split()[1]


def ops_of(block):
    return [l for l in block if l.startswith("O ")]


def make_replay(block, ops=None):
    """A replay file: header, base library, op lines."""
    head = [l for l in block if l.startswith("H ") or l.startswith("L ")]
    return "\n".join(head + (ops if ops is not None else ops_of(block)) + ["E"]) + "\n"


def execute_replay(replay_text, tag="replay", http=None):
    """Run a replay against the real library, then the model+monitors; returns (trace, model_output).
    Transport: real HTTP on loopback if `http` (or if the replay text says `# transport=http`), network hooks otherwise."""
    if http is None:
        http = "# transport=http" in replay_text
    os.makedirs(WORK, exist_ok=True)
    rp = os.path.join(WORK, "%s.%d.ops" % (tag, os.getpid()))
    tp = rp + ".trace"
    with open(rp, "w") as f:
        f.write(replay_text)
    run([DRIVE_BIN, "--replay", rp, "--out", tp] + (["--http"] if http else []), check=True)
    trace = open(tp).read()
    out = run([MODEL_BIN, "replay"], inp=trace, check=True).stdout
    os.unlink(rp)
    os.unlink(tp)
    return trace, out


def verdicts(model_out):
    """Parse driver output into (diffs, judge failures, bads, stats)."""
    diffs, jf, bads, stats = [], [], [], {}
    for line in model_out.splitlines():
        if line.startswith("DIFF "):
            diffs.append(line)
        elif line.startswith("J "):
            parts = line.split(" ", 5)
            jf.append({"prop": parts[1], "hist": parts[2], "step": int(parts[3].split("=")[1]), "side": parts[4].split("=")[1], "why": parts[5] if len(parts) > 5 else ""})
        elif line.startswith("BAD "):
            bads.append(line)
        elif line.startswith("STATS "):
            for kv in line.split()[1:]:
                k, v = kv.split("=")
                stats[k] = int(v)
    return diffs, jf, bads, stats


def normalize_why(why):
    """Reason with concrete patch numbers abstracted (for matching known findings)."""
    return re.sub(r"\d+", "N", why)


def shrink(block, prop, max_rounds=200, http=False):
    """ddmin-style: drop ops while the implementation trace is still rejected by `prop`'s monitor."""
    ops = ops_of(block)

    def fails(cand):
        # stale-file indices refer to positions; dropping ops invalidates them, so map them to nop
        _, out = execute_replay(make_replay(block, cand), "shrink", http=http)
        _, jf, bads, _ = verdicts(out)
        return (not bads) and any(j["prop"] == prop and j["side"] == "impl" for j in jf)

    if not fails(ops):
        return ops
    n = 2
    rounds = 0
    while len(ops) >= 2 and rounds < max_rounds:
        rounds += 1
        chunk = max(1, len(ops) // n)
        reduced = False
        for i in range(0, len(ops), chunk):
            cand = ops[:i] + ops[i + chunk:]
            if cand and fails(cand):
                ops = cand
                n = max(n - 1, 2)
                reduced = True
                break
        if not reduced:
            if chunk == 1:
                break
            n = min(len(ops), n * 2)
    return ops
