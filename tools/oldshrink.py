#!/usr/bin/env python3
"""oldshrink.py <drive-bin> <prop> <substring> <out.ops> [profile] [seed]: with a harness built against an
older checkout, find and shrink a history whose implementation trace the current monitors reject."""
import sys, os
sys.path.insert(0, os.path.dirname(os.path.abspath(__file__)))
import common
from common import *
drive, prop, sub, outp = sys.argv[1:5]
profile = sys.argv[5] if len(sys.argv) > 5 else "lifecycle"
seed = sys.argv[6] if len(sys.argv) > 6 else "3"
common.DRIVE_BIN = drive
tp = "/tmp/oldshrink.trace"
run([drive, "--seed", seed, "--count", "800", "--profile", profile, "--out", tp], check=True)
trace = open(tp).read()
out = run([MODEL_BIN, "replay"], inp=trace).stdout
_, jf, _, _ = verdicts(out)
blocks = {block_id(b): b for b in split_blocks(trace)}

def execute(replay_text):
    rp = "/tmp/oldshrink.ops"; open(rp, "w").write(replay_text)
    run([drive, "--replay", rp, "--out", rp + ".trace"], check=True)
    return run([MODEL_BIN, "replay"], inp=open(rp + ".trace").read()).stdout

def fails(b, ops):
    o = execute(make_replay(b, ops))
    _, j, bad, _ = verdicts(o)
    return (not bad) and any(x["prop"] == prop and sub in x["why"] and x["side"] == "impl" for x in j)

for j in jf:
    if j["prop"] == prop and sub in j["why"]:
        b = blocks[j["hist"]]
        ops = ops_of(b)
        if not fails(b, ops):
            continue
        n = 2
        while len(ops) >= 2:
            chunk = max(1, len(ops) // n); red = False
            for i in range(0, len(ops), chunk):
                cand = ops[:i] + ops[i + chunk:]
                if cand and fails(b, cand):
                    ops = cand; n = max(n - 1, 2); red = True; break
            if not red:
                if chunk == 1: break
                n = min(len(ops), n * 2)
        open(outp, "w").write("# %s\n" % j["why"] + make_replay(b, ops))
        print(outp); print(open(outp).read()[:1500]); break
else:
    print("none found")
