#!/usr/bin/env python3
"""Translator: C ABI tables from the Rust source, the generated C header and the Dart FFI bindings
-> lean/UpdaterModel/Gen/Abi.lean (regenerated on every run)."""
import re, os, sys

REPO = "/repo"
OUT = "/verif/lean/UpdaterModel/Gen/Abi.lean"


def strip_comments(s):
    s = re.sub(r"/\*.*?\*/", "", s, flags=re.S)
    return re.sub(r"//.*", "", s)


def split_top(s, sep=","):
    out, depth, cur = [], 0, ""
    prev = ""
    for ch in s:
        if ch in "(<[":
            depth += 1
        elif ch in ")>]" and not (ch == ">" and prev == "-"):
            depth -= 1
        prev = ch
        if ch == sep and depth == 0:
            out.append(cur)
            cur = ""
        else:
            cur += ch
    if cur.strip():
        out.append(cur)
    return [x.strip() for x in out if x.strip()]


class Names:
    def __init__(self):
        self.ids = {}

    def id(self, n):
        if n not in self.ids:
            self.ids[n] = len(self.ids)
        return self.ids[n]


NAMES = Names()


def fn_ty(ret, args):
    if len(args) > 3:
        raise ValueError("function pointer with more than 3 parameters: extend CTy")
    return ".fn%d %s" % (len(args), " ".join(["(%s)" % ret] + ["(%s)" % a for a in args]))


# ---------------------------------------------------------------- Rust
def rust_ty(t):
    t = t.strip()
    if t in ("", "()"):
        return ".void"
    m = re.match(r"(?:unsafe\s+)?extern\s+\"C\"\s+fn\s*\((.*)\)\s*(?:->\s*(.*))?$", t, flags=re.S)
    if m:
        args = [rust_ty(a.split(":", 1)[1] if ":" in a else a) for a in split_top(m.group(1))]
        return fn_ty(rust_ty(m.group(2) or "()"), args)
    m = re.match(r"\*\s*(const|mut)\s+(.*)$", t, flags=re.S)
    if m:
        return ".ptr (%s)" % rust_ty(m.group(2))
    t = t.replace("libc::", "").replace("std::os::raw::", "")
    table = {"c_char": ".char", "bool": ".bool", "usize": ".usize", "i32": ".i32", "i64": ".i64", "u8": ".u8",
             "c_int": ".int", "c_void": ".void",
             "i8": ".i8", "i16": ".i16", "u16": ".u16", "u32": ".u32", "u64": ".u64", "isize": ".isize", "c_uint": ".u32",
             "c_long": ".i64", "c_ulong": ".u64"}
    if t in table:
        return table[t]
    if re.match(r"^[A-Z]\w*$", t):
        return ".struct %d" % NAMES.id(t)
    raise ValueError("unknown Rust type: %r" % t)


def parse_rust():
    src = strip_comments(open(os.path.join(REPO, "library/src/c_api/mod.rs")).read())
    src = src.split("#[cfg(test)]\nmod test")[0]
    fns = []
    for m in re.finditer(r"#\[no_mangle\]\s*pub\s+(?:unsafe\s+)?extern\s+\"C\"\s+fn\s+(\w+)\s*\((.*?)\)\s*(?:->\s*([^{]*?))?\s*\{", src, flags=re.S):
        params = [rust_ty(p.split(":", 1)[1]) for p in split_top(m.group(2))]
        fns.append((m.group(1), rust_ty(m.group(3) or "()"), params))
    structs = []
    for m in re.finditer(r"#\[repr\(C\)\]\s*pub\s+struct\s+(\w+)\s*\{(.*?)\n\}", src, flags=re.S):
        fields = []
        for f in split_top(m.group(2)):
            f = f.strip()
            if not f:
                continue
            f = re.sub(r"^pub\s+", "", f)
            name, ty = f.split(":", 1)
            fields.append((name.strip(), rust_ty(ty)))
        structs.append((m.group(1), fields))
    consts = [(m.group(1), int(m.group(2))) for m in re.finditer(r"pub\s+const\s+(SHOREBIRD_\w+)\s*:\s*i32\s*=\s*(-?\d+)\s*;", src)]
    up = strip_comments(open(os.path.join(REPO, "library/src/updater.rs")).read())
    m = re.search(r"pub\s+enum\s+UpdateStatus\s*\{(.*?)\}", up, flags=re.S)
    variants = [v.strip() for v in m.group(1).split(",") if v.strip()]
    # how statuses are turned into codes
    casts_status = bool(re.search(r"status:\s*status\s+as\s+i32", src))
    err_const = re.search(r"Err\(err\)\s*=>\s*UpdateResult\s*\{\s*status:\s*(\w+)", src)
    return fns, structs, consts, variants, casts_status, (err_const.group(1) if err_const else "?")


# ---------------------------------------------------------------- C header
def c_ty(t):
    t = t.strip()
    t = re.sub(r"\bconst\b", "", t)
    t = re.sub(r"\bstruct\b", "", t)
    t = " ".join(t.split())
    stars = t.count("*")
    base = t.replace("*", "").strip()
    table = {"char": ".char", "bool": ".bool", "uintptr_t": ".usize", "int32_t": ".i32", "int64_t": ".i64",
             "uint8_t": ".u8", "int": ".int", "void": ".void",
             "int8_t": ".i8", "int16_t": ".i16", "uint16_t": ".u16", "uint32_t": ".u32", "uint64_t": ".u64", "intptr_t": ".isize",
             "unsigned int": ".u32", "long": ".i64", "unsigned long": ".u64"}
    if base in table:
        r = table[base]
    elif re.match(r"^[A-Z]\w*$", base):
        r = ".struct %d" % NAMES.id(base)
    else:
        raise ValueError("unknown C type: %r" % t)
    for _ in range(stars):
        r = ".ptr (%s)" % r
    return r


def c_decl(d):
    """'const char *name' -> (name, type); function pointer fields too."""
    d = d.strip()
    m = re.match(r"(.*?)\(\s*\*\s*(\w+)\s*\)\s*\((.*)\)$", d, flags=re.S)
    if m:
        args = [] if m.group(3).strip() == "void" else [c_decl(a)[1] for a in split_top(m.group(3))]
        return m.group(2), fn_ty(c_ty(m.group(1)), args)
    m = re.match(r"(.*?)(\w+)$", d, flags=re.S)
    return m.group(2), c_ty(m.group(1))


def parse_header():
    src = strip_comments(open(os.path.join(REPO, "library/include/updater.h")).read())
    defines = [(m.group(1), int(m.group(2))) for m in re.finditer(r"#define\s+(SHOREBIRD_\w+)\s+(-?\d+)\s*$", src, flags=re.M)]
    structs = []
    for m in re.finditer(r"typedef\s+struct\s+(\w+)\s*\{(.*?)\}\s*\w+\s*;", src, flags=re.S):
        fields = [c_decl(f) for f in m.group(2).split(";") if f.strip()]
        structs.append((m.group(1), fields))
    fns = []
    for m in re.finditer(r"SHOREBIRD_EXPORT\s+([^;(]*?)(\w+)\s*\(([^;]*?)\)\s*;", src, flags=re.S):
        args = [] if m.group(3).strip() == "void" else [c_decl(a)[1] for a in split_top(m.group(3))]
        fns.append((m.group(2), c_ty(m.group(1)), args))
    return fns, structs, defines


# ---------------------------------------------------------------- Dart
def dart_ty(t):
    t = " ".join(t.split())
    t = t.replace("ffi .NativeFunction", "ffi.NativeFunction").replace("ffi .", "ffi.")
    m = re.match(r"ffi\.Pointer<\s*ffi\.NativeFunction<(.*)>\s*>$", t)
    if m:
        return dart_fn(m.group(1))
    m = re.match(r"ffi\.Pointer<(.*)>$", t)
    if m:
        return ".ptr (%s)" % dart_ty(m.group(1))
    table = {"ffi.Char": ".char", "ffi.Bool": ".bool", "ffi.UintPtr": ".usize", "ffi.Int32": ".i32", "ffi.Int64": ".i64",
             "ffi.Uint8": ".u8", "ffi.Int": ".int", "ffi.Void": ".void",
             "ffi.Int8": ".i8", "ffi.Int16": ".i16", "ffi.Uint16": ".u16", "ffi.Uint32": ".u32", "ffi.Uint64": ".u64", "ffi.IntPtr": ".isize",
             "ffi.UnsignedInt": ".u32", "ffi.Long": ".i64", "ffi.UnsignedLong": ".u64"}
    if t in table:
        return table[t]
    if re.match(r"^[A-Z]\w*$", t):
        return ".struct %d" % NAMES.id(t)
    raise ValueError("unknown Dart type: %r" % t)


def dart_sig(sig):
    sig = " ".join(sig.split())
    i = sig.index(" Function(")
    ret = sig[:i]
    inner = sig[i + len(" Function("):]
    depth, j = 1, 0
    while depth:
        if inner[j] == "(":
            depth += 1
        elif inner[j] == ")":
            depth -= 1
        j += 1
    args = []
    for a in split_top(inner[:j - 1]):
        # drop a trailing parameter name
        m = re.match(r"(.*[>\w])\s+(\w+)$", a)
        if m and not m.group(1).strip().endswith("ffi"):
            a = m.group(1)
        args.append(dart_ty(a))
    return dart_ty(ret), args


def dart_fn(sig):
    ret, args = dart_sig(sig)
    return fn_ty(ret, args)


def parse_dart():
    src = open(os.path.join(REPO, "shorebird_code_push/lib/src/generated/updater_bindings.g.dart")).read()
    src = re.sub(r"///.*", "", src)
    fns = []
    for m in re.finditer(r"_lookup<\s*ffi\.NativeFunction<((?:(?!_lookup).)*?)>>\(\s*'(shorebird_\w+)'\)", src, flags=re.S):
        ret, args = dart_sig(m.group(1))
        fns.append((m.group(2), ret, args))
    structs = []
    for name in ("AppParameters", "FileCallbacks", "UpdateResult"):
        m = re.search(r"final class %s extends ffi\.Struct \{(.*?)\n\}" % name, src, flags=re.S)
        if not m:
            continue
        fields = []
        for f in re.finditer(r"(?:@(ffi\.\w+)\(\)\s*)?external\s+(.*?)\s+(\w+)\s*;", m.group(1), flags=re.S):
            ann, ty, fname = f.group(1), f.group(2), f.group(3)
            fields.append((fname, dart_ty(ann) if ann else dart_ty(ty)))
        structs.append((name, fields))
    consts = [(m.group(1), int(m.group(2))) for m in re.finditer(r"^const int (SHOREBIRD_\w+) = (-?\d+);", src, flags=re.M)]
    return fns, structs, consts


def lean_fns(name, fns):
    rows = ["  { name := %d, ret := %s, params := [%s] }  -- %s" % (NAMES.id(n), r, ", ".join(p), n) for n, r, p in fns]
    body = ",\n".join(x.split("  --")[0] for x in rows)
    comment = "\n".join("  -- %d = %s" % (NAMES.id(n), n) for n, _, _ in fns)
    return "def %s : List Fn := [\n%s ]\n%s\n" % (name, body, comment)


def lean_structs(name, structs):
    rows = []
    for n, fields in structs:
        fs = ", ".join("(%d, %s)" % (NAMES.id(f), t) for f, t in fields)
        rows.append("  { name := %d, fields := [%s] }" % (NAMES.id(n), fs))
    return "def %s : List Struct := [\n%s ]\n" % (name, ",\n".join(rows))


def lean_consts(name, consts):
    return "def %s : List (Nat × Int) := [%s]\n" % (name, ", ".join("(%d, %d)" % (NAMES.id(n), v) for n, v in consts))


def main():
    try:
        rfns, rstructs, rconsts, variants, casts, errc = parse_rust()
        hfns, hstructs, hdefs = parse_header()
        dfns, dstructs, dconsts = parse_dart()
    except Exception as e:
        print("extract_abi: %s" % e)
        return 1
    doc_codes = [("SHOREBIRD_UPDATE_ERROR", -1), ("SHOREBIRD_NO_UPDATE", 0), ("SHOREBIRD_UPDATE_INSTALLED", 1),
                 ("SHOREBIRD_UPDATE_HAD_ERROR", 2), ("SHOREBIRD_UPDATE_IS_BAD_PATCH", 3)]
    doc_variants = ["NoUpdate", "UpdateInstalled", "UpdateHadError", "UpdateIsBadPatch"]
    out = ["/-", "  GENERATED by tools/extract_abi.py from /repo on every run. Do not edit.",
           "  Sources: library/src/c_api/mod.rs, library/src/updater.rs, library/include/updater.h,",
           "           shorebird_code_push/lib/src/generated/updater_bindings.g.dart", "-/",
           "import UpdaterModel.Model.Abi", "", "namespace Updater.Gen", "open Updater.Abi", ""]
    out.append(lean_fns("rustFns", rfns))
    out.append(lean_fns("headerFns", hfns))
    out.append(lean_fns("dartFns", dfns))
    out.append(lean_structs("rustStructs", rstructs))
    out.append(lean_structs("headerStructs", hstructs))
    out.append(lean_structs("dartStructs", dstructs))
    out.append(lean_consts("rustConsts", rconsts))
    out.append(lean_consts("headerConsts", hdefs))
    out.append(lean_consts("dartConsts", dconsts))
    out.append(lean_consts("documentedCodes", doc_codes))
    out.append("/-- Variants of `enum UpdateStatus` in declaration order (discriminant = index). -/")
    out.append("def statusVariants : List Nat := [%s]" % ", ".join(str(NAMES.id(v)) for v in variants))
    out.append("/-- The documented outcome of each code 0..3. -/")
    out.append("def documentedVariants : List Nat := [%s]" % ", ".join(str(NAMES.id(v)) for v in doc_variants))
    out.append("/-- `to_update_result` turns Ok(status) into `status as i32` -/")
    out.append("def statusIsCast : Bool := %s" % ("true" if casts else "false"))
    out.append("/-- ... and Err(_) into this constant. -/")
    out.append("def errorConst : Nat := %d" % NAMES.id(errc))
    out.append("")
    out.append("/-- identifier table (index = id) -/")
    names = sorted(NAMES.ids.items(), key=lambda kv: kv[1])
    out.append("def names : List String := [%s]" % ", ".join('"%s"' % n for n, _ in names))
    out.append("")
    out.append("end Updater.Gen")
    text = "\n".join(out) + "\n"
    os.makedirs(os.path.dirname(OUT), exist_ok=True)
    if not os.path.exists(OUT) or open(OUT).read() != text:
        open(OUT, "w").write(text)
    return 0


if __name__ == "__main__":
    sys.exit(main())
