#!/usr/bin/env python3
"""seeded_meta.py <id> <property> <what it needs to manifest>: write seeded/<id>/meta.json from confirm.json/result.json."""
import json, os, sys
sid, prop, need = sys.argv[1], sys.argv[2], sys.argv[3]
d = "/verif/seeded/" + sid
res = json.load(open(d + "/result.json")) if os.path.exists(d + "/result.json") else {}
conf = json.load(open(d + "/confirm.json")) if os.path.exists(d + "/confirm.json") else {}
target = res.get("detail", {}).get(prop, {})
concrete = [l for l in target.get("lines", []) if l.startswith("VIOLATION") and "no-failing-input-found" not in l]
meta = {"id": sid, "breaks_property": prop, "needs_to_manifest": need,
        "origin": "written by an independent sub-agent given only the property text and a scratch worktree",
        "confirmed_by_me": conf.get("confirmed"),
        "what_i_ran": ["tools/confirm_seeded.sh <worktree> %s  (suite with change / with change+demo / with demo only)" % sid,
                       "tools/try_seeded.py %s <checks>  (git -C /repo apply patch.diff; quick checks; git -C /repo checkout -- .)" % sid],
        "caught_by_target_check": bool(target.get("rc")), "concrete_replays_from_target_check": len(concrete),
        "all_checks_that_alarmed": res.get("caught_by")}
json.dump(meta, open(d + "/meta.json", "w"), indent=1)
print(sid, prop, meta["caught_by_target_check"], len(concrete))
