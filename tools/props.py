"""Per-property configuration of the checks."""

TRUSTED_BASE = [
    "Lean 4.33 kernel (theorems re-checked by `lake build`; thorough tier also by leanchecker)",
    "axioms allowed: propext, Classical.choice, Quot.sound (audited with #print axioms on every theorem)",
    "hand-written Lean model of library/src (one def per fn), tied to the code by the correspondence campaign of this run",
    "correspondence harness (/verif/harness), its generators, the canonical observation format and the Lean driver",
    "serde_json/serde_yaml abstracted to missing|garbage|ok; zstd; ring RSA + base64 (parameter `verify`, filled with ring's verdicts)",
    "POSIX file-system semantics of create/write/rename/remove_dir_all; std::sync::Mutex",
]

def camp(quick, thorough):
    return {"quick": quick, "thorough": thorough}

LIFE_Q = [("lifecycle", 250), ("mixed", 250), ("rollback", 200), ("damage", 150), ("chaos", 150), ("signing", 150), ("release", 100), ("init", 100)]
LIFE_T = [(p, n * 12) for p, n in LIFE_Q] + [("download", 1500), ("network", 1500), ("strings", 1000)]

PROPS = {
    "C14": {
        "modules": ["C14"],
        "required_theorems": ["C14_holds", "init_configured"],
        "monitors": ["C14"],
        "fields": ["ret", "net", "sj", "sje", "pj", "pd", "junk"],
        "campaign": camp([("init", 400), ("chaos", 300), ("mixed", 200), ("lifecycle", 100)],
                         [("init", 5000), ("chaos", 4000), ("mixed", 3000), ("lifecycle", 2000), ("damage", 2000), ("strings", 1000)]),
        "assumptions": ["harness restart = reset of the process-global config (justified by the statics list: the only statics are the two mutexes)"],
    },
}

PROPS["C02"] = {
    "modules": ["C02"],
    "required_theorems": ["C02_holds", "step_ban"],
    "monitors": ["C02"],
    "fields": ["ret", "net", "pj", "pd", "sj"],
    "campaign": camp([("lifecycle", 400), ("mixed", 300), ("rollback", 200), ("chaos", 200), ("release", 100), ("signing", 100)],
                     [("lifecycle", 6000), ("mixed", 5000), ("rollback", 3000), ("chaos", 3000), ("release", 2000), ("signing", 2000), ("damage", 2000)]),
    "assumptions": ["the guarantee is stated (as in the property) for as long as the release stays and the state files are not damaged from outside: the monitor forgets its failed set at a release change or state-file damage",
                    "process death is modelled at call boundaries (restart op); death inside a call is C04"],
}

PROPS["C10"] = {
    "modules": ["C10"],
    "required_theorems": ["C10_holds", "step_roll"],
    "monitors": ["C10"],
    "fields": ["ret", "net", "pj", "pd", "sj"],
    "campaign": camp([("rollback", 500), ("lifecycle", 300), ("mixed", 300), ("chaos", 150), ("release", 100)],
                     [("rollback", 8000), ("lifecycle", 5000), ("mixed", 4000), ("chaos", 3000), ("release", 2000), ("damage", 2000), ("signing", 2000)]),
    "assumptions": ["as in the property, the guarantee lasts until the number is installed again; the monitor also forgets at a release change and at state-file damage"],
}

PROPS["C19"] = {
    "modules": ["C19"], "required_theorems": ["C19_holds"], "monitors": ["C19"],
    "fields": ["ret", "net", "pj", "pd", "sj"],
    "campaign": camp([("lifecycle", 400), ("rollback", 300), ("mixed", 300), ("release", 150), ("chaos", 150)],
                     [("lifecycle", 6000), ("rollback", 5000), ("mixed", 4000), ("release", 2500), ("chaos", 2500), ("damage", 2000), ("signing", 2000)]),
    "assumptions": ["clause (iv) is stated for a pending patch that is not the one currently booting (such a patch is kept: it becomes the last good patch on success)"],
}
PROPS["C08"] = {
    "modules": ["C08"], "required_theorems": ["C08_holds"], "monitors": ["C08"],
    "fields": ["ret", "net", "pj", "pd", "sj", "sje"],
    "campaign": camp([("release", 600), ("mixed", 300), ("damage", 200), ("chaos", 200)],
                     [("release", 10000), ("mixed", 4000), ("damage", 3000), ("chaos", 3000), ("strings", 2000)]),
    "assumptions": ["interruption of the first launch of the new release is C04"],
}
PROPS["C17"] = {
    "modules": ["C17"], "required_theorems": ["C17_holds"], "monitors": ["C17"],
    "fields": ["ret", "net", "sj", "sje", "pj"],
    "campaign": camp([("lifecycle", 500), ("mixed", 300), ("rollback", 200), ("release", 150), ("chaos", 150)],
                     [("lifecycle", 8000), ("mixed", 5000), ("rollback", 3000), ("release", 2000), ("chaos", 2000), ("strings", 2000)]),
    "assumptions": ["events of spawned threads are awaited through the hook's live-thread counter; their order relative to later calls is not asserted"],
}

# Properties whose theorems are still being written: monitors + correspondence only (not in MANIFEST).
for _p, _mon, _camp in [
    ("C01", ["C01"], camp(LIFE_Q, LIFE_T)), ("C03", ["C03"], camp(LIFE_Q, LIFE_T)), ("C05", ["C05"], camp(LIFE_Q, LIFE_T)),
    ("C08", ["C08"], camp(LIFE_Q, LIFE_T)), ("C09", ["C09"], camp(LIFE_Q, LIFE_T)), ("C13", ["C13"], camp(LIFE_Q, LIFE_T)),
    ("C17", ["C17"], camp(LIFE_Q, LIFE_T)), ("C18", ["C18"], camp(LIFE_Q, LIFE_T)), ("C19", ["C19"], camp(LIFE_Q, LIFE_T)),
    ("C20", ["C20"], camp(LIFE_Q, LIFE_T))]:
    if _p not in PROPS:
        PROPS[_p] = {"modules": [], "monitors": _mon, "campaign": _camp, "internal": True}

SPECIAL = {}
