"""Per-property configuration of the checks."""

TRUSTED_BASE = [
    "Lean 4.33 kernel (theorems re-checked by `lake build`; thorough tier also by leanchecker)",
    "axioms allowed: propext, Classical.choice, Quot.sound (audited with #print axioms on every theorem)",
    "hand-written Lean model of library/src (one def per fn), tied to the code by the correspondence campaign of this run",
    "correspondence harness (/verif/harness), its generators, the canonical observation format and the Lean driver",
    "serde_json/serde_yaml abstracted to missing|garbage|ok; zstd; ring RSA + base64 (parameter `verify`, filled with ring's verdicts)",
    "POSIX file-system semantics of create/write/rename/remove_dir_all; std::sync::Mutex",
]

def camp(quick, thorough):
    return {"quick": quick, "thorough": thorough}

LIFE_Q = [("lifecycle", 250), ("mixed", 250), ("rollback", 200), ("damage", 150), ("chaos", 150), ("signing", 150), ("release", 100), ("init", 100)]
LIFE_T = [(p, n * 12) for p, n in LIFE_Q] + [("download", 1500), ("network", 1500), ("strings", 1000)]

PROPS = {
    "C14": {
        "modules": ["C14"],
        "required_theorems": ["C14_holds", "second_init_keeps_booting"],
        "monitors": ["C14"],
        "fields": ["ret", "net", "sj", "sje", "pj", "pd", "junk"],
        "campaign": camp([("init", 400), ("chaos", 300), ("mixed", 200), ("lifecycle", 100)],
                         [("init", 5000), ("chaos", 4000), ("mixed", 3000), ("lifecycle", 2000), ("damage", 2000), ("strings", 1000)]),
        "assumptions": ["harness restart = reset of the process-global config (justified by the statics list: the only statics are the two mutexes)"],
    },
}

PROPS["C02"] = {
    "modules": ["C02", "C02b"],
    "required_theorems": ["C02_holds", "step_ban", "C02b_holds", "checks02_mono", "step_keeps_booting"],
    "monitors": ["C02"], "restart_fidelity": {"quick": 60, "thorough": 1500},
    "fields": ["ret", "net", "pj", "sj"],
    "campaign": camp([("lifecycle", 400), ("mixed", 300), ("rollback", 200), ("chaos", 200), ("release", 100), ("signing", 100)],
                     [("lifecycle", 6000), ("mixed", 5000), ("rollback", 3000), ("chaos", 3000), ("release", 2000), ("signing", 2000), ("damage", 2000)]),
    "assumptions": ["the guarantee is stated (as in the property) for as long as the release stays and the state files are not damaged from outside: the monitor forgets its failed set at a release change or state-file damage",
                    "process death is modelled at call boundaries (restart op); death inside a call is C04"],
}

PROPS["C10"] = {
    "modules": ["C10", "C10Again"],
    "required_theorems": ["C10_holds", "step_roll", "C10_again_holds", "afterCheck_rolled_offer", "shouldInstall_rolled"],
    "monitors": ["C10"],
    "fields": ["ret", "pj", "pd", "sj"],
    "campaign": camp([("rollback", 500), ("lifecycle", 300), ("mixed", 300), ("chaos", 150), ("release", 100)],
                     [("rollback", 8000), ("lifecycle", 5000), ("mixed", 4000), ("chaos", 3000), ("release", 2000), ("damage", 2000), ("signing", 2000)]),
    "assumptions": ["as in the property, the guarantee lasts until the number is installed again; the monitor also forgets at a release change and at state-file damage"],
}

PROPS["C19"] = {
    "modules": ["C19"], "required_theorems": ["C19_holds"], "monitors": ["C19"],
    "fields": ["ret", "pj", "pd", "sj"],
    "campaign": camp([("lifecycle", 400), ("rollback", 300), ("mixed", 300), ("release", 150), ("chaos", 150)],
                     [("lifecycle", 6000), ("rollback", 5000), ("mixed", 4000), ("release", 2500), ("chaos", 2500), ("damage", 2000), ("signing", 2000)]),
    "assumptions": ["clause (iv) is stated for a pending patch that is not the one currently booting (such a patch is kept: it becomes the last good patch on success)"],
}
PROPS["C08"] = {
    "modules": ["C08"], "required_theorems": ["C08_holds"], "monitors": ["C08"],
    "fields": ["ret", "pj", "pd", "sj", "sje"],
    "campaign": camp([("release", 600), ("mixed", 300), ("damage", 200), ("chaos", 200)],
                     [("release", 10000), ("mixed", 4000), ("damage", 3000), ("chaos", 3000), ("strings", 2000)]),
    "assumptions": ["interruption of the first launch of the new release is C04"],
}
PROPS["C17"] = {
    "modules": ["C17", "C17Bound"], "required_theorems": ["event_batch_agrees", "C17_holds", "queue_bound", "step_q"], "monitors": ["C17"],
    "fields": ["ret", "net", "sj", "sje", "pj"],
    "campaign": camp([("lifecycle", 500), ("mixed", 300), ("rollback", 200), ("release", 150), ("chaos", 150), ("events", 250), ("conc", 200), ("lifecycle@http", 200), ("strings@http", 100)],
                     [("lifecycle", 8000), ("mixed", 5000), ("rollback", 3000), ("release", 2000), ("chaos", 2000), ("strings", 2000), ("events", 4000), ("conc", 3000),
                      ("lifecycle@http", 2500), ("strings@http", 1500), ("mixed@http", 1500)]),
    "assumptions": ["in the @http slices the event fields are read from the JSON the library really put on the wire (its own serialiser, real HTTP on loopback)", "events of spawned threads are awaited through the hook's live-thread counter; their order relative to later calls is not asserted",
                    "two-thread episodes (slice conc): only the download-event clause is judged on their network log (episodeNetChecks), on the real library's runs; the section machine of the model carries no network actions, the theorem for the clause is the sequential C17_holds"],
}

DMG_Q = [("damage", 500), ("signing", 500), ("mixed", 300), ("chaos", 200), ("lifecycle", 150)]
DMG_T = [("damage", 8000), ("signing", 6000), ("mixed", 5000), ("chaos", 4000), ("lifecycle", 3000), ("release", 2000)]
PROPS["C01"] = {
    "modules": ["C01"], "required_theorems": ["C01_holds", "next_boot_patch_sound"], "monitors": ["C01"],
    "fields": ["ret", "pj", "pd", "sj"],
    "campaign": camp(DMG_Q, DMG_T),
    "assumptions": ["a forged, internally consistent patches_state.json + matching artifact is not in the property's damage list; stale files are earlier versions of the same file (StaleOK)",
                    "`verify` = ring's RSA verdicts, supplied by the harness for every (key, hash, signature) triple used"],
}
PROPS["C07"] = {
    "modules": ["C07", "C01"], "required_theorems": ["C07_signed_only", "C07_bad_key", "C07_install_requires_signature", "C01_holds"], "monitors": ["C01", "C05"],
    "fields": ["ret", "pj", "pd", "sj"],
    "campaign": camp([("signing", 900), ("damage", 300), ("mixed", 200)], [("signing", 15000), ("damage", 5000), ("mixed", 4000), ("chaos", 3000)]),
    "assumptions": ["ring (RSA_PKCS1_2048_8192_SHA256) and base64 are trusted; the model's `verify` is instantiated with ring's real verdicts",
                    "SHA-256 of the model is compared with the sha2 crate on every artifact content used (codec check, C16)"],
}
DL_Q = [("reissue", 300), ("download", 600), ("network", 400), ("mixed", 250), ("signing", 150), ("rollback", 100)]
DL_T = [("reissue", 5000), ("download", 10000), ("network", 8000), ("mixed", 4000), ("signing", 3000), ("rollback", 2000), ("chaos", 2000)]
PROPS["C05"] = {
    "modules": ["C05"], "required_theorems": ["C05_holds", "update_installed_sound", "installStage_failed"], "monitors": ["C05"],
    "fields": ["ret", "net", "pj", "pd", "sj"],
    "campaign": camp(DL_Q, DL_T),
    "assumptions": ["zstd is not modelled: the harness hands the model the bytes the real decompressor emitted (complete or cut short)",
                    "bipatch/integer-encoding are modelled from their pinned source; the model's decoder and SHA-256 are compared with the real crates in the codec check"],
}
PROPS["C06"] = {
    "modules": ["C06", "C05"], "required_theorems": ["C06_holds", "C06_requests_hold", "C06_check_failed", "C06_bad_response", "C05_holds"], "monitors": ["C05", "C06", "C13"],
    "fields": ["ret", "net", "pj", "pd", "sj"],
    "campaign": camp([("reissue", 200), ("network", 700), ("download", 400), ("mixed", 250), ("rollback", 150),
                      ("network@http", 300), ("download@http", 200), ("mixed@http", 150)],
                     [("reissue", 3000), ("network", 12000), ("download", 8000), ("mixed", 4000), ("rollback", 3000), ("chaos", 2000),
                      ("network@http", 3000), ("download@http", 2500), ("mixed@http", 2000), ("reissue@http", 1500), ("strings@http", 1000)]),
    "assumptions": ["the model sees only the classified result (error | ok value) of each request; that the library's real network code (reqwest, handle_network_result, serde on the wire) produces exactly that classification is exercised by the @http slices: the default hooks talk to a scripted HTTP/1.1 server on 127.0.0.1 that enacts failures as 4xx/5xx statuses, closed connections, non-HTTP bytes, truncated and wrongly typed JSON, announced-but-undelivered bodies and short stalls, and successes as length- or close-delimited bodies with optional / null / unknown fields",
                    "TLS, DNS, proxies, redirects to other hosts and stalls longer than a fraction of a second are not exercised"],
}
PROPS["C20"] = {
    "modules": ["C20"], "required_theorems": ["default_channel_agrees", "C20_holds"], "monitors": ["C20"],
    "fields": ["net", "sj", "sje"],
    "campaign": camp([("strings", 600), ("mixed", 300), ("lifecycle", 200), ("init", 200), ("chaos", 150), ("strings@http", 250), ("mixed@http", 100)],
                     [("strings", 10000), ("mixed", 5000), ("lifecycle", 4000), ("init", 3000), ("chaos", 3000),
                      ("strings@http", 3000), ("mixed@http", 2000), ("init@http", 1000)]),
    "assumptions": ["in the @http slices the request fields are read from the JSON the library really put on the wire (its own serialiser, real HTTP on loopback)", "AppConsistent: the compiled-in app id is the same at every initialisation of a history, and stale state.json files are earlier versions of the same file"],
}

PROPS["C12"] = {
    "modules": ["C12"], "required_theorems": ["acts_wellFormed", "acts_sectionsAtomic", "progress", "busy_update_inert"], "monitors": ["C12"],
    "fields": ["locks", "net"], "runtime_c12": True,
    "campaign": camp([("network", 400), ("mixed", 400), ("download", 300), ("chaos", 300), ("rollback", 200)],
                     [("network", 6000), ("mixed", 6000), ("download", 4000), ("chaos", 4000), ("rollback", 3000), ("lifecycle", 3000)]),
    "assumptions": ["std::sync::Mutex semantics; 'promptly' (latency) is runtime: the model shows the absence of blocking dependencies; the hung-update scenario (an update parked in each of its three network callbacks while every other call is timed from another thread, limit 10 s) exhibits it on the real library",
                    "error paths after a failed file-system operation are not in the model (its file-system operations do not fail): they are scanned on the real library by failing every mutating call of sampled launches with EIO and watching for calls that never return",
                    "the lock hooks log acquisitions/releases of the two global locks on the calling thread; spawned threads only perform network callbacks (counted)"],
}

PROPS["C09"] = {
    "modules": ["C09"], "required_theorems": ["C09_holds", "step_sel", "installed_is_next", "installed_next_valid"], "monitors": ["C09"],
    "fields": ["ret", "pj", "pd", "sj"],
    "campaign": camp([("lifecycle", 500), ("rollback", 400), ("mixed", 300), ("chaos", 200), ("signing", 150)],
                     [("lifecycle", 8000), ("rollback", 6000), ("mixed", 4000), ("chaos", 3000), ("signing", 3000), ("release", 2000), ("damage", 2000)]),
    "assumptions": ["InitKey: every effective initialisation of a history configures the same public key (it is compiled into the app)",
                    "the 'stays selected' clause is claimed for installs after which every record of number n (selection, last good, booting) matches the artifact in place: not for a signature that fails under the configured key (C07), nor for a server that re-issues number n with different bytes while an older record of n is still last good / booting"],
}

PROPS["C03"] = {
    "modules": ["C03", "NonVacuity"], "required_theorems": ["C03_holds", "step03_enter", "step03_success", "step03_unsettled", "step03_noenter", "intactChecks_ok"], "monitors": ["C03"],
    "fields": ["ret", "pj", "pd", "sj"],
    "campaign": camp([("lifecycle", 500), ("rollback", 400), ("mixed", 300), ("damage", 200), ("chaos", 200), ("signing", 500)],
                     [("lifecycle", 8000), ("rollback", 6000), ("mixed", 4000), ("damage", 3000), ("chaos", 3000), ("signing", 6000), ("release", 2000)]),
    "assumptions": ["InitKey: every effective initialisation of a history configures the same public key",
                    "a server that re-issues the number of the last good patch with OTHER bytes ends the tracking of that patch (a re-install writes what was downloaded and verified - C05); with the same bytes the artifact is unchanged and stays tracked",
                    "the last good patch is tracked from a success report after which every record of its number matches the artifact in place; outside damage to it or to the state files ends the tracking (as the property says)"],
}

PROPS["C18"] = {
    "modules": ["C18", "C18Self"], "required_theorems": ["C18_holds", "step18", "step_run", "step_idle", "C18_self_holds", "C18_self_run", "C18_self_reports", "calm_step_booting", "calm_check", "calm_update", "calm_damage"], "monitors": ["C18"],
    "fields": ["ret", "pj", "pd", "sj"],
    "campaign": camp([("lifecycle", 500), ("mixed", 400), ("rollback", 300), ("chaos", 200), ("damage", 150)],
                     [("lifecycle", 8000), ("mixed", 5000), ("rollback", 5000), ("chaos", 3000), ("damage", 3000), ("signing", 2000), ("release", 2000)]),
    "assumptions": ["as C03 (one configured key) for the 'last good patch before launch start' clause",
                    "the running patch is the selection a launch start recorded as booting while every record of that number matched the artifact in place; things that happen to that patch itself end the tracking: its boot is reported failed, the server rolls it back or re-issues (re-installs) its number, its artifact or the state files are damaged from outside, the release changes, the process ends"],
}

PROPS["C13"] = {
    "modules": ["C13"], "required_theorems": ["artifactPath_consts", "sites_covered", "never_panics", "stepP_ok", "applyChannel_ok", "artifactPath_utf8", "pathToCString_ok", "uninit_defaults", "C13_holds"],
    "monitors": ["C13"],
    "fields": ["ret", "net", "pj", "pd", "sj"],
    "campaign": camp([("chaos", 500), ("init", 400), ("strings", 300), ("damage", 300), ("download", 300), ("mixed", 200)],
                     [("chaos", 8000), ("init", 6000), ("strings", 5000), ("damage", 5000), ("download", 5000), ("network", 4000), ("mixed", 4000), ("release", 2000)]),
    "assumptions": ["the translator tools/extract_panics.py (lexical: unwrap/expect family, panic!/unreachable!/assert! macros, index expressions, division, a list of std methods that panic on bad arguments) over the production (non-test, non-hook) sources",
                    "panics inside std and the dependencies (allocation failure, thread spawn failure, serde/zstd/bipatch internals, reqwest client construction) cannot be exhibited by the model: the malformed-input campaign under a process-wide panic hook is the only evidence there",
                    "std::sync::Mutex poisons exactly when a thread panics while holding the guard"],
}

PROPS["C11"] = {
    "modules": ["C11", "NonVacuity"], "required_theorems": ["C11_holds", "step11_A", "step11_B", "Inv11_start", "secLaunchSuccess_good_new", "urun_eq_updateCore", "crun_eq_checkCore"],
    "monitors": ["C11"],
    "fields": ["ret", "pj", "pd", "sj", "sje"],
    "campaign": camp([("conc", 500)] * 3, [("conc", 2500)] * 12),
    "enumerate_schedules": True,
    "assumptions": ["interleaving granularity = acquisitions of the state lock (the only shared state is on disk and re-read inside every critical section; what a thread does between two sections depends on its own data only)",
                    "std::sync::Mutex gives mutual exclusion; the harness's scheduler parks each participating thread in the before_lock hook, so every real schedule at this granularity can be forced and replayed",
                    "one update at a time (the update lock); the other thread issues launch reports, queries and checks; init/restart during an episode are excluded (a second init is inert by C14, a restart ends the process)",
                    "the episode starts from a readable state of this release (any content): every call has loaded the state at least once after init"],
}

PROPS["C04"] = {
    "kind": "crash",
    "modules": ["C04", "C04Eio", "C04Ban", "C04Up", "NonVacuity"],
    "required_theorems": ["crash_safe", "crash_in_progress", "reset_fault_safe", "recover_facts", "launch_files_ok", "segs_op", "segs_ops", "step_launch_inv", "crashPairs_pjok", "crash_safe_not_banned",
                          "secHandlePriorSaves_apply", "secLaunchStartSaves_apply", "secLaunchSuccessSaves_apply", "secLaunchFailureSaves_apply",
                          "secNextBootPatchSaves_apply", "secClearEventsSaves_apply", "secRollBackSaves_apply", "secInstallSaves_apply",
                          "eio_safe_next_launch", "eio_safe_same_process", "eio_inv", "faultPairs_pred", "resetThen_inv", "resetThen_none",
                          "opSegs_sec", "reach_step", "reach_ops", "tryFallBackKeep_ps", "crash_safe_reachable", "reachable_selfBan", "step_selfBan",
                          "crash_then_other_release", "Sec.saves_sjver", "crashPairs_notOf", "starts_ops"],
    "monitors": ["C04"],
    "assumptions": ["process death = the process stops between two of its file-system calls, or half-way through a write; every completed call is durable and ordered (no fsync in the code: loss or reordering of completed writes by the kernel / file system below is outside the model)",
                    "a state file that is being rewritten is unreadable (empty or cut short) until the write completes: serde_json rejects every proper prefix of the documents involved",
                    "the next launch is one of the same release (crash_safe) or of another release the directory was never a state of (crash_then_other_release: nothing is selected); a downgrade back to a release whose state files are still in place is C08's subject",
                    "single I/O error, execution continues (second sentence): the fault is a failing state-file write (file untouched or cut short; the section stops anywhere later or runs on), a failing artifact operation (patches/ left in ANY state; the section's saves stop anywhere) or a failing step of the release-change reset; read errors are not modelled; that the VALUES a section saves do not depend on whether its removals of artifacts succeeded is proved for the fallback, the only place that decides after removing (tryFallBackKeep_ps); add_patch gives up before saving when placing the file fails (read off the code, exercised by the eio runs)",
                    "the theorem's process runs ANY sequence of the library's critical sections (a superset of every call sequence, reach_step); which section a real call runs after a failed one is therefore not modelled and need not be"],
}

# Properties whose theorems are still being written: monitors + correspondence only (not in MANIFEST).
for _p, _mon, _camp in [
    ("C01", ["C01"], camp(LIFE_Q, LIFE_T)), ("C03", ["C03"], camp(LIFE_Q, LIFE_T)), ("C05", ["C05"], camp(LIFE_Q, LIFE_T)),
    ("C08", ["C08"], camp(LIFE_Q, LIFE_T)), ("C09", ["C09"], camp(LIFE_Q, LIFE_T)), ("C13", ["C13"], camp(LIFE_Q, LIFE_T)),
    ("C17", ["C17"], camp(LIFE_Q, LIFE_T)), ("C18", ["C18"], camp(LIFE_Q, LIFE_T)), ("C19", ["C19"], camp(LIFE_Q, LIFE_T)),
    ("C20", ["C20"], camp(LIFE_Q, LIFE_T))]:
    if _p not in PROPS:
        PROPS[_p] = {"modules": [], "monitors": _mon, "campaign": _camp, "internal": True}

PROPS["C16"] = {
    "kind": "codec",
    "modules": ["C16"], "required_theorems": ["roundtrip", "roundtrip_hash", "decode_control", "decode_controls"],
    "assumptions": ["zstd: unzstd(zstd x) = x is assumed (checked on every end-to-end case: the real tool's file decompresses to the raw diff)",
                    "bidiff's scanner emits a tiling of the new binary: checked with the executable `tilingB` on every generated pair, not proved",
                    "sizes below 2^63 (positions are file offsets; seeks fit an i64)"],
}

PROPS["C15"] = {
    "kind": "abi",
    "monitors": ["C15"], "fields": ["ret"],
    "campaign": camp([("lifecycle", 200), ("mixed", 150)], [("lifecycle", 3000), ("mixed", 3000), ("download", 2000)]),
    "modules": ["C15"],
    "required_theorems": ["status_discriminants", "error_code", "status_constants", "header_agrees_with_rust", "dart_agrees_with_rust",
                          "structs_agree", "layouts_defined", "update_result_layout", "path_roundtrip", "result_roundtrip", "double_free_flagged"],
    "assumptions": ["the translator tools/extract_abi.py (regexes over the three texts; identifier equality by table index)",
                    "LP64 layout function of the model; real allocator behaviour is runtime (valgrind memcheck / ASan as supporting evidence)",
                    "Dart is not installed: the Dart side is checked as text, FFI marshalling is trusted"],
}

import special
SPECIAL = special.SPECIAL
