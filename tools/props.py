"""Per-property configuration of the checks."""

TRUSTED_BASE = [
    "Lean 4.33 kernel (theorems re-checked by `lake build`; thorough tier also by leanchecker)",
    "axioms allowed: propext, Classical.choice, Quot.sound (audited with #print axioms on every theorem)",
    "hand-written Lean model of library/src (one def per fn), tied to the code by the correspondence campaign of this run",
    "correspondence harness (/verif/harness), its generators, the canonical observation format and the Lean driver",
    "serde_json/serde_yaml abstracted to missing|garbage|ok; zstd; ring RSA + base64 (parameter `verify`, filled with ring's verdicts)",
    "POSIX file-system semantics of create/write/rename/remove_dir_all; std::sync::Mutex",
]

def camp(quick, thorough):
    return {"quick": quick, "thorough": thorough}

LIFE_Q = [("lifecycle", 250), ("mixed", 250), ("rollback", 200), ("damage", 150), ("chaos", 150), ("signing", 150), ("release", 100), ("init", 100)]
LIFE_T = [(p, n * 12) for p, n in LIFE_Q] + [("download", 1500), ("network", 1500), ("strings", 1000)]

PROPS = {
    "C14": {
        "modules": ["C14"],
        "required_theorems": ["C14_holds", "init_configured"],
        "monitors": ["C14"],
        "fields": ["ret", "net", "sj", "sje", "pj", "pd", "junk"],
        "campaign": camp([("init", 400), ("chaos", 300), ("mixed", 200), ("lifecycle", 100)],
                         [("init", 5000), ("chaos", 4000), ("mixed", 3000), ("lifecycle", 2000), ("damage", 2000), ("strings", 1000)]),
        "assumptions": ["harness restart = reset of the process-global config (justified by the statics list: the only statics are the two mutexes)"],
    },
}

PROPS["C02"] = {
    "modules": ["C02"],
    "required_theorems": ["C02_holds", "step_ban"],
    "monitors": ["C02"],
    "fields": ["ret", "net", "pj", "pd", "sj"],
    "campaign": camp([("lifecycle", 400), ("mixed", 300), ("rollback", 200), ("chaos", 200), ("release", 100), ("signing", 100)],
                     [("lifecycle", 6000), ("mixed", 5000), ("rollback", 3000), ("chaos", 3000), ("release", 2000), ("signing", 2000), ("damage", 2000)]),
    "assumptions": ["the guarantee is stated (as in the property) for as long as the release stays and the state files are not damaged from outside: the monitor forgets its failed set at a release change or state-file damage",
                    "process death is modelled at call boundaries (restart op); death inside a call is C04"],
}

SPECIAL = {}
