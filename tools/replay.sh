#!/bin/sh
# replay.sh <file>: re-executes a replay against the real library (built from /repo) and
# prints the model comparison and the monitor verdicts.
set -e
f=$(readlink -f "$1"); set -- "$f"
cd /verif/harness && cargo build --offline >/dev/null 2>&1
if grep -q '^# crash-experiment' "$1"; then exec python3 /verif/tools/crash.py --replay "$1"; fi
if grep -q '^# hung-scenario http' "$1"; then exec /verif/harness/target/debug/drive --http --hung; fi
if grep -q '^# hung-scenario' "$1"; then exec /verif/harness/target/debug/drive --hung; fi
grep -v '^#' "$1" > /verif/work/replay.$$.ops
rc=0
http=""; if grep -q '^# transport=http' "$1"; then http="--http"; fi
/verif/harness/target/debug/drive $http --replay /verif/work/replay.$$.ops --out /verif/work/replay.$$.trace 2>/verif/work/replay.$$.err || rc=$?
if [ $rc -ne 0 ]; then grep -E 'HANG|PANIC' /verif/work/replay.$$.err || true; echo "the driver ended with exit code $rc (4 = a call never returned, 134 = abort after a panic)"; fi
[ -s /verif/work/replay.$$.trace ] && /verif/lean/.lake/build/bin/model replay < /verif/work/replay.$$.trace
rm -f /verif/work/replay.$$.ops /verif/work/replay.$$.trace /verif/work/replay.$$.err
