#!/bin/sh
# replay.sh <file.ops>: re-executes a replay against the real library (built from /repo) and
# prints the model comparison and the monitor verdicts.
set -e
if grep -q '^# crash-experiment' "$1"; then cd /verif/harness && cargo build --offline >/dev/null 2>&1; exec python3 /verif/tools/crash.py --replay "$1"; fi
cd /verif/harness && cargo build --offline >/dev/null 2>&1
grep -v '^#' "$1" > /verif/work/replay.$$.ops
/verif/harness/target/debug/drive --replay /verif/work/replay.$$.ops --out /verif/work/replay.$$.trace 2>/dev/null
/verif/lean/.lake/build/bin/model replay < /verif/work/replay.$$.trace
rm -f /verif/work/replay.$$.ops /verif/work/replay.$$.trace
