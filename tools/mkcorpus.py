#!/usr/bin/env python3
"""mkcorpus.py <trace> <prop> <name> [substring]: shrink the first history of <trace> whose
implementation trace is rejected by <prop>'s monitor (reason containing substring) and store it
as corpus/<name>.ops."""
import sys, os
sys.path.insert(0, os.path.dirname(os.path.abspath(__file__)))
from common import *

trace = open(sys.argv[1]).read()
prop, name = sys.argv[2], sys.argv[3]
sub = sys.argv[4] if len(sys.argv) > 4 else ""
out = run([MODEL_BIN, "replay"], inp=trace).stdout
_, jf, _, _ = verdicts(out)
blocks = {block_id(b): b for b in split_blocks(trace)}
for j in jf:
    if j["prop"] == prop and sub in j["why"]:
        b = blocks[j["hist"]]
        ops = shrink(b, prop)
        text = make_replay(b, ops)
        path = os.path.join(VERIF, "corpus", name + ".ops")
        open(path, "w").write(text)
        _, o2 = execute_replay(text, "verify")
        print(path)
        print(text)
        print("\n".join(l for l in o2.splitlines() if l.startswith("J ")))
        break
else:
    print("no matching failure")
