#!/bin/sh
# confirm_seeded.sh <worktree> <id>: re-verify a sub-agent's seeded change in its scratch worktree and
# store it under /verif/seeded/<id>/ (patch.diff, demo.diff, notes, what was run).
set -u
WT=$1; ID=$2; OUT=/verif/seeded/$ID
mkdir -p $OUT
cp $WT/seeded.patch $OUT/patch.diff; cp $WT/demo.patch $OUT/demo.diff; cp $WT/seeded.md $OUT/agent_notes.md 2>/dev/null
cd $WT && git checkout -q -- . && git clean -fdq -e seeded.patch -e demo.patch -e seeded.md -e target
run() { (cd $WT && cargo test --workspace --no-fail-fast --offline 2>&1 | grep -E "^test result: .* [0-9]+ passed" | awk '{p+=$4; f+=$6} END {print p" passed, "f" failed"}'); }
git apply $OUT/patch.diff || { echo "patch does not apply"; exit 1; }
A=$(run)                                   # seeded only: suite must pass
git apply $OUT/demo.diff || { echo "demo does not apply"; exit 1; }
B=$(run)                                   # seeded + demo: demo must fail
git apply -R $OUT/patch.diff
C=$(run)                                   # demo only: must pass
git checkout -q -- . 
echo "seeded-only: $A | seeded+demo: $B | demo-only: $C"
echo "{\"confirmed\": {\"suite_with_change\": \"$A\", \"suite_with_change_and_demo\": \"$B\", \"suite_with_demo_only\": \"$C\"}}" > $OUT/confirm.json
