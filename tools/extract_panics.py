#!/usr/bin/env python3
"""extract_panics.py: translator for C13.

Reads the library's Rust sources as the production Linux build sees them (items and statements under
`#[cfg(test)]`, `#[cfg(target_os = "android"|"ios"|...)]` or `#[cfg(feature = "verif-hooks")]` removed,
comments and string literals blanked) and lists every expression that can panic by itself:

  unwrap / expect / unwrap_err / expect_err calls, panic!/unreachable!/unimplemented!/todo!/assert*! macros,
  index and slice expressions `e[...]`, integer division and remainder, additive arithmetic on time values
  (Duration / Instant / SystemTime: panics on underflow and overflow in every build profile), and a few std methods
  that panic on bad arguments (copy_from_slice, split_at, swap_remove, Vec::remove, ...).

Output: lean/UpdaterModel/Gen/PanicSites.lean, a table `sites : List Site` (file, enclosing fn, kind, normalised
expression text, occurrence index within the fn). Line numbers are deliberately NOT part of the identity: moving
code does not change the table, adding a panicking expression does.
"""
import os, re, sys, json, hashlib

REPO = os.environ.get("VERIF_REPO", "/repo")
SRC = os.path.join(REPO, "library", "src")
OUT = os.path.join(os.path.dirname(os.path.abspath(__file__)), "..", "lean", "UpdaterModel", "Gen", "PanicSites.lean")

SKIP_FILES = {"verif_hooks.rs", "test_utils.rs"}          # hooks are ours; test_utils is #[cfg(test)] in lib.rs
PANIC_METHODS = ["unwrap", "expect", "unwrap_err", "expect_err", "copy_from_slice", "split_at", "split_at_mut",
                 "swap_remove", "remove", "unwrap_unchecked", "clone_from_slice", "split_off", "drain"]
PANIC_MACROS = ["panic", "unreachable", "unimplemented", "todo", "assert", "assert_eq", "assert_ne"]


def blank_comments_and_strings(src):
    """Replace comments by spaces and string/char literal contents by spaces (keeping the quotes)."""
    out = []
    i, n = 0, len(src)
    while i < n:
        c = src[i]
        if src.startswith("//", i):
            j = src.find("\n", i)
            j = n if j < 0 else j
            out.append(" " * (j - i)); i = j
        elif src.startswith("/*", i):
            depth, j = 1, i + 2
            while j < n and depth:
                if src.startswith("/*", j): depth += 1; j += 2
                elif src.startswith("*/", j): depth -= 1; j += 2
                else: j += 1
            out.append("".join(ch if ch == "\n" else " " for ch in src[i:j])); i = j
        elif c == '"' or (c == 'r' and re.match(r'r#*"', src[i:])) or (c == 'b' and re.match(r'b(r#*)?"', src[i:])):
            m = re.match(r'(b?r(#*)"|b?")', src[i:])
            opener = m.group(1)
            hashes = m.group(2) or ""
            raw = 'r' in opener
            j = i + len(opener)
            close = '"' + hashes
            if raw:
                k = src.find(close, j)
                k = n if k < 0 else k
            else:
                k = j
                while k < n and src[k] != '"':
                    k += 2 if src[k] == '\\' else 1
            body = src[j:k]
            out.append(opener + "".join(ch if ch == "\n" else " " for ch in body) + close)
            i = k + len(close)
        elif c == "'":
            # char literal or lifetime
            m = re.match(r"'(\\.[^']*|[^'\\])'", src[i:])
            if m:
                out.append("'" + " " * (len(m.group(0)) - 2) + "'"); i += len(m.group(0))
            else:
                out.append(c); i += 1
        else:
            out.append(c); i += 1
    return "".join(out)


def eval_cfg(expr):
    """Evaluate a cfg predicate for the production Linux build (test = false, verif-hooks = off)."""
    expr = expr.strip()
    m = re.match(r"^(not|any|all)\s*\((.*)\)$", expr, re.S)
    if m:
        op, inner = m.group(1), m.group(2)
        parts, depth, cur = [], 0, ""
        for ch in inner:
            if ch == "(": depth += 1
            if ch == ")": depth -= 1
            if ch == "," and depth == 0: parts.append(cur); cur = ""
            else: cur += ch
        if cur.strip(): parts.append(cur)
        vals = [eval_cfg(p) for p in parts]
        return (not vals[0]) if op == "not" else (any(vals) if op == "any" else all(vals))
    if expr == "test": return False
    if expr == "debug_assertions": return False
    m = re.match(r'^target_os\s*=\s*"\s*"$', expr)      # strings were blanked: cannot evaluate → see caller
    return None


def strip_cfg(src_blank, src_orig):
    """Remove items / statements guarded by a cfg that is false in the production Linux build."""
    out = list(src_blank)
    for m in re.finditer(r"#\[cfg\(", src_blank):
        start = m.start()
        # find the matching ']' of the attribute
        depth, j = 0, m.end() - 1
        while j < len(src_blank):
            if src_blank[j] == "(": depth += 1
            elif src_blank[j] == ")":
                depth -= 1
                if depth == 0: break
            j += 1
        attr_end = src_blank.index("]", j) + 1
        pred = src_orig[m.end():j]                     # original text: string values intact
        val = eval_pred(pred)
        if val is not False:
            continue
        # skip following attributes and the item: up to the matching '}' of its first '{' or the first ';' at depth 0
        k = attr_end
        depth_b = 0
        while k < len(src_blank):
            ch = src_blank[k]
            if ch in "([": depth_b += 1
            elif ch in ")]": depth_b -= 1
            elif ch == "{":
                # block item: find matching brace
                d2 = 0
                while k < len(src_blank):
                    if src_blank[k] == "{": d2 += 1
                    elif src_blank[k] == "}":
                        d2 -= 1
                        if d2 == 0: break
                    k += 1
                k += 1
                break
            elif ch == ";" and depth_b == 0:
                k += 1; break
            elif ch == "," and depth_b == 0:
                k += 1; break                          # struct field / match arm / argument
            k += 1
        for t in range(start, min(k, len(out))):
            if out[t] != "\n": out[t] = " "
    return "".join(out)


def eval_pred(pred):
    pred = pred.strip()
    m = re.match(r"^(not|any|all)\s*\((.*)\)$", pred, re.S)
    if m:
        op, inner = m.group(1), m.group(2)
        parts, depth, cur = [], 0, ""
        for ch in inner:
            if ch == "(": depth += 1
            if ch == ")": depth -= 1
            if ch == "," and depth == 0: parts.append(cur); cur = ""
            else: cur += ch
        if cur.strip(): parts.append(cur)
        vals = [eval_pred(p) for p in parts]
        if op == "not": return None if vals[0] is None else (not vals[0])
        if op == "any": return True if any(v is True for v in vals) else (None if any(v is None for v in vals) else False)
        return False if any(v is False for v in vals) else (None if any(v is None for v in vals) else True)
    if pred == "test": return False
    m = re.match(r'^target_os\s*=\s*"(\w+)"$', pred)
    if m: return m.group(1) == "linux"
    m = re.match(r'^feature\s*=\s*"([\w-]+)"$', pred)
    if m: return False if m.group(1) == "verif-hooks" else None
    return None


def enclosing_fns(src):
    """Map offset -> name of the innermost enclosing fn (by brace matching)."""
    spans = []
    for m in re.finditer(r"\bfn\s+(\w+)", src):
        # find the body's opening brace (skip the signature; a ';' first means no body)
        k, depth = m.end(), 0
        while k < len(src):
            ch = src[k]
            if ch in "(<[": depth += 1
            elif ch in ")>]":
                if not (ch == ">" and src[k - 1] == "-"): depth -= 1
            elif ch == ";" and depth <= 0: k = -1; break
            elif ch == "{" and depth <= 0: break
            k += 1
        if k < 0 or k >= len(src): continue
        d, e = 0, k
        while e < len(src):
            if src[e] == "{": d += 1
            elif src[e] == "}":
                d -= 1
                if d == 0: break
            e += 1
        spans.append((k, e, m.group(1)))
    def lookup(off):
        best = None
        for a, b, name in spans:
            if a <= off <= b and (best is None or a > best[0]): best = (a, b, name)
        return best[2] if best else "<top>"
    return lookup


def norm(s):
    return re.sub(r"\s+", " ", s).strip()


def guard_of(code, orig, off):
    """Header of the innermost enclosing `if` / `match` / `while` / `for` block (with the match arm, when the
    site sits in an arm with a block body); "" if none inside the fn."""
    depth, k = 0, off
    arm = ""
    while k > 0:
        k -= 1
        ch = code[k]
        if ch == "}": depth += 1
        elif ch == "{":
            if depth > 0: depth -= 1; continue
            # header: back to the previous ';', '{' or '}' at this level
            h = k
            d2 = 0
            while h > 0:
                c2 = code[h - 1]
                if c2 in ")]": d2 += 1
                elif c2 in "([": d2 -= 1
                elif c2 in ";{}" and d2 <= 0: break
                h -= 1
            head = norm(code[h:k])
            head = re.sub(r"^else\s+", "", head)
            if re.search(r"\bfn\s+\w+", head): return ""
            m = re.search(r"\b(if|match|while|for)\b.*$", head)
            if m: return m.group(0) + (" | " + arm if arm else "")
            if head.endswith("=>") and not arm: arm = head
    return ""


def find_sites(path, rel):
    orig = open(path).read()
    blank = blank_comments_and_strings(orig)
    code = strip_cfg(blank, orig)
    fn_of = enclosing_fns(code)
    sites = []
    def line_of(off): return code.count("\n", 0, off) + 1
    def ctx(off):
        ls = code.rfind("\n", 0, off) + 1
        le = code.find("\n", off); le = len(code) if le < 0 else le
        return norm(orig[ls:le])
    for m in re.finditer(r"\.\s*(%s)\s*(::<[^>]*>)?\s*\(" % "|".join(PANIC_METHODS), code):
        sites.append((m.start(), "call:" + m.group(1)))
    for m in re.finditer(r"\b(%s)!\s*[\(\[\{]" % "|".join(PANIC_MACROS), code):
        if code[max(0, m.start() - 6):m.start()] == "debug_": continue
        sites.append((m.start(), "macro:" + m.group(1)))
    # index / slice expressions: '[' directly after an identifier, ')' or ']'
    for m in re.finditer(r"(?<=[\w\)\]])\[", code):
        before = code[max(0, m.start() - 40):m.start()]
        if re.search(r"#!?$", before): continue                      # attribute
        if re.search(r"\b(vec|matches|println|format|write|writeln|info|debug|warn|error|trace|anyhow|bail)!$", before): continue
        sites.append((m.start(), "index"))
    # integer division / remainder (a '/' or '%' operator)
    for m in re.finditer(r"(?<![/\*])\s(/|%)\s(?![/\*=])", code):
        sites.append((m.start() + 1, "div:" + m.group(1)))
    # arithmetic on time values: `Duration - Duration`, `Instant - Duration`, `Instant + Duration`, `SystemTime ± Duration`
    # panic on underflow / overflow in every build profile. Operand types are not known to a textual translator: an
    # additive operator counts when its statement (or one of the two lines above) mentions a time type or constructor.
    for m in re.finditer(r"(?<=[\w\)\]])\s([-+])\s(?=[\w\(])", code):
        ls = code.rfind("\n", 0, m.start()) + 1
        for _ in range(2):
            ls = code.rfind("\n", 0, max(ls - 1, 0)) + 1
        le = code.find("\n", m.start()); le = len(code) if le < 0 else le
        if re.search(r"\b(Duration|Instant|SystemTime|UNIX_EPOCH|elapsed|from_secs|from_millis|unix_timestamp)\b", code[ls:le]):
            sites.append((m.start() + 1, "time-arith:" + m.group(1)))
    res = []
    counts = {}
    for off, kind in sorted(sites):
        fn = fn_of(off)
        key = (fn, kind)
        counts[key] = counts.get(key, 0) + 1
        res.append({"file": rel, "fn": fn, "kind": kind, "occ": counts[key], "line": line_of(off), "text": ctx(off),
                    "guard": guard_of(code, orig, off)})
    return res


def all_sites():
    res = []
    for root, _, files in os.walk(SRC):
        for f in sorted(files):
            if not f.endswith(".rs") or f in SKIP_FILES: continue
            p = os.path.join(root, f)
            res += find_sites(p, os.path.relpath(p, SRC))
    res.sort(key=lambda s: (s["file"], s["fn"], s["kind"], s["occ"]))
    return res


def lean_str(s):
    return '"' + s.replace("\\", "\\\\").replace('"', '\\"') + '"'


def main():
    sites = all_sites()
    if "--json" in sys.argv:
        print(json.dumps(sites, indent=1)); return
    lines = ["/-  GENERATED by tools/extract_panics.py from /repo/library/src — do not edit.  -/",
             "namespace Updater.Gen", "",
             "/-- (file, enclosing fn, kind, occurrence within the fn, innermost enclosing if/match header, statement) of",
             "    every expression of the production Linux build that can panic by itself. -/",
             "def panicSites : List (String × String × String × Nat × String × String) := ["]
    for i, s in enumerate(sites):
        sep = "," if i + 1 < len(sites) else ""
        lines.append("  (%s, %s, %s, %d, %s, %s)%s" % (lean_str(s["file"]), lean_str(s["fn"]), lean_str(s["kind"]), s["occ"],
                                                   lean_str(s["guard"]), lean_str(s["text"]), sep))
    lines += ["]", "", "end Updater.Gen", ""]
    os.makedirs(os.path.dirname(OUT), exist_ok=True)
    new = "\n".join(lines)
    if not os.path.exists(OUT) or open(OUT).read() != new:
        open(OUT, "w").write(new)
    print("panic sites: %d" % len(sites))


if __name__ == "__main__":
    main()
