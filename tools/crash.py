#!/usr/bin/env python3
"""crash.py — process-death experiments for C04.

For a history (a block of a `drive` trace) and a position p:
  1. a fresh process plays ops[0..p) against a persistent directory (no faults): the state `pre` on disk;
  2. for k = 0, 1, 2, …: the directory is restored, a fresh process plays [launch-init ; ops[p]] under the
     LD_PRELOAD interposer, which kills it immediately before its k-th mutating file-system call under the
     storage root (mode `kill`) or after half of that write (mode `torn`); the directory is observed (`crash`
     state), then a third process plays the recovery [init ; nextn] and the directory is observed again;
     when the interrupted process survives (k beyond its last mutation) the enumeration of this call ends.
Output: one `K` block per experiment for `model crash`:
  K <id> plat= arch=
  L <lib> <hex>                    base library
  V …                              verify table (copied from the history)
  P <obs>                          state before the interrupted process
  O <init op>                      the launch's init
  O <op>                           the interrupted call
  X k=<k> mode=<kill|torn> | <crash obs> | <recovery init op> | <recovery obs after init> | <obs after nextn>
  E
"""
import os, sys, subprocess, shutil, json, re, hashlib
sys.path.insert(0, os.path.dirname(os.path.abspath(__file__)))
from common import *

CRASH_BIN = os.path.join(HARNESS_DIR, "target", "debug", "crash")
FSFAULT = os.path.join(VERIF, "interpose", "fsfault.so")


def run_ops(root, lines, env_extra=None):
    opsf = root + ".ops"
    open(opsf, "w").write("\n".join(lines) + "\n")
    env = dict(ENV)
    env.setdefault("VERIF_WATCHDOG_SECS", "10")      # a call that never returns ends the process with exit code 4
    if env_extra:
        env.update(env_extra)
    try:
        p = subprocess.run([CRASH_BIN, "run", "--root", root, "--ops", opsf], capture_output=True, text=True, env=env, timeout=300)
    except subprocess.TimeoutExpired:
        os.unlink(opsf)
        return 124, [], "HANG the process timed out (300 s)"
    os.unlink(opsf)
    return p.returncode, [l[2:] for l in p.stdout.splitlines() if l.startswith("R ")], p.stderr


def observe(root):
    p = subprocess.run([CRASH_BIN, "observe", "--root", root], capture_output=True, text=True, env=ENV)
    for l in p.stdout.splitlines():
        if l.startswith("R "):
            return l[2:]
    return None


def last_init(ops, p):
    for o in reversed(ops[:p]):
        if o.startswith("O init "):
            return o
    return None


UP_VERSION = "8.8.8%2B1"      # a release no generated history uses: the storage directory is never a state of it


def with_version(init_line, version_tok):
    return re.sub(r"ver=\S+", "ver=" + version_tok, init_line)


def experiment(block, p, work, exp_id, new_version=None, mode="kill", max_k=400):
    """The launch that contains position p of the history — its init and every call up to p — is
    interrupted at each of its mutating file-system calls. Returns the lines of one K block, or None."""
    head = [l for l in block if l.startswith("L ")]
    vtab = [l for l in block if l.startswith("V ")]
    ops = ops_of(block)
    if p >= len(ops):
        return None
    q = None
    for i in range(p, -1, -1):
        if ops[i].startswith("O init "):
            q = i
            break
        if ops[i].startswith(("O restart", "O dmg", "O conc")):
            return None                      # the launch must consist of library calls only
    if q is None or q == p:
        return None
    launch_ops = ops[q + 1:p + 1]
    init = ops[q]
    root = os.path.join(work, "crash-%s" % exp_id)
    snap = root + ".snap"
    for d in (root, snap):
        shutil.rmtree(d, ignore_errors=True)
    os.makedirs(root)
    rc, _, err = run_ops(root, head + ops[:q])
    if rc != 0:
        shutil.rmtree(root, ignore_errors=True)
        return None
    pre = observe(root)
    shutil.copytree(root, snap, symlinks=True)
    launch_init = with_version(init, new_version) if new_version else init
    # "+up": the app is upgraded before it is launched again — the launch after the death is one of another release
    upgrade = mode.endswith("+up")
    mode = mode.split("+")[0]
    recovery_init = with_version(launch_init, UP_VERSION) if upgrade else launch_init
    out = ["K %s %s" % (exp_id, " ".join(block[0].split()[2:]))] + head + vtab + ["P " + pre, launch_init] + launch_ops
    storage = os.path.join(root, "st0")
    k = 0
    while k < max_k:
        shutil.rmtree(root)
        shutil.copytree(snap, root, symlinks=True)
        env = {"LD_PRELOAD": FSFAULT, "VERIF_FS_ROOT": storage, "VERIF_FS_KILL_AT": str(k), "VERIF_FS_MODE": mode}
        if mode == "eio":
            # a single call fails with an I/O error and execution continues: the process must survive,
            # and what it selects afterwards (in this process and at the next launch) is judged
            logf = root + ".fslog"
            env["VERIF_FS_LOG"] = logf
            if os.path.exists(logf):
                os.unlink(logf)
            rc, robs0, err = run_ops(root, [launch_init] + launch_ops + ["O nextn"], env)
            hit = os.path.exists(logf) and sum(1 for _ in open(logf)) > k
            if os.path.exists(logf):
                os.unlink(logf)
            if not hit:
                break                  # fewer than k+1 mutating calls: enumeration complete
            if rc != 0 or len(robs0) != len(launch_ops) + 2:
                out.append("X k=%d mode=eio | ABNORMAL the process did not survive the I/O error: rc=%d %s" % (k, rc, err.strip().replace("\n", " ")[-300:]))
                k += 1
                continue
            crash_obs = observe(root)
            rrc, robs, rerr = run_ops(root, [launch_init, "O nextn"])
            if rrc != 0 or len(robs) != 2:
                out.append("X k=%d mode=eio | %s | RECOVERY-FAILED rc=%d %s" % (k, crash_obs, rrc, rerr.strip().replace("\n", " ")[-300:]))
            else:
                out.append("X k=%d mode=eio | %s | %s | %s | %s | %s" % (k, crash_obs, launch_init[2:], robs[0], robs[1], robs0[-1]))
            k += 1
            continue
        rc, done, err = run_ops(root, [launch_init] + launch_ops, env)
        if rc == 0:
            break                      # the process survived: k is past its last mutation
        # the call that was running at death: the completed calls printed their observation
        started = len(done) - 1        # -1: died inside the initialisation
        tag = "k=%d mode=%s%s%s" % (k, mode, (" started=%d" % started) if started >= 0 else "", " up=1" if upgrade else "")
        if rc != 137:
            out.append("X %s | ABNORMAL rc=%d %s" % (tag, rc, err.strip().replace("\n", " ")[-300:]))
            k += 1
            continue
        crash_obs = observe(root)
        rrc, robs, rerr = run_ops(root, [recovery_init, "O nextn"])
        if rrc != 0 or len(robs) != 2:
            out.append("X %s | %s | RECOVERY-FAILED rc=%d %s" % (tag, crash_obs, rrc, rerr.strip().replace("\n", " ")[-300:]))
        else:
            out.append("X %s | %s | %s | %s | %s" % (tag, crash_obs, recovery_init[2:], robs[0], robs[1]))
        k += 1
    out.append("E")
    shutil.rmtree(root, ignore_errors=True)
    shutil.rmtree(snap, ignore_errors=True)
    return out


def main_manual():
    # crash.py <trace> <hist-id> <p> [new-version-token]
    text = open(sys.argv[1]).read()
    b = [b for b in split_blocks(text) if block_id(b) == sys.argv[2]][0]
    nv = sys.argv[4] if len(sys.argv) > 4 else None
    os.makedirs(WORK, exist_ok=True)
    res = experiment(b, int(sys.argv[3]), "/dev/shm", "manual", nv)
    print("\n".join(l[:400] for l in (res or ["not applicable"])))


# ------------------------------------------------------------------------------------------------
# campaign: many experiments in parallel, judged by `model crash`

def make_replay_file(block, p, new_version, mode, why):
    head = [l for l in block if l.startswith("H ") or l.startswith("L ") or l.startswith("V ")]
    ops = ops_of(block)[:p + 1]
    return "\n".join(["# crash-experiment p=%d new_version=%s mode=%s" % (p, new_version or "-", mode),
                      "# %s" % why, "# replay: tools/replay.sh <this file>"] + head + ops + ["E"]) + "\n"


def replay_block(path, eid):
    """Re-run the experiment stored in a replay file; returns (block, p, nv, mode, K-lines)."""
    text = open(path).read()
    m = re.search(r"# crash-experiment p=(\d+) new_version=(\S+) mode=(\S+)", text)
    p, nv, mode = int(m.group(1)), (None if m.group(2) == "-" else m.group(2)), m.group(3)
    body = "\n".join(l for l in text.splitlines() if not l.startswith("#"))
    b = split_blocks(body)[0]
    return b, p, nv, mode, experiment(b, p, "/dev/shm", eid, nv, mode)


def replay_file(path):
    """Re-run the experiment stored in a replay file and print the model's verdict."""
    text = open(path).read()
    m = re.search(r"# crash-experiment p=(\d+) new_version=(\S+) mode=(\S+)", text)
    p, nv, mode = int(m.group(1)), (None if m.group(2) == "-" else m.group(2)), m.group(3)
    body = "\n".join(l for l in text.splitlines() if not l.startswith("#"))
    b = split_blocks(body)[0]
    os.makedirs(WORK, exist_ok=True)
    res = experiment(b, p, "/dev/shm", "replay-%d" % os.getpid(), nv, mode)
    out = run([MODEL_BIN, "crash"], inp="\n".join(res) + "\n").stdout
    print(out)


def _one(args):
    block, p, nv, mode, eid = args
    try:
        return (eid, block, p, nv, mode, experiment(block, p, "/dev/shm", eid, nv, mode))
    except Exception as e:               # infrastructure trouble is reported, never swallowed
        return (eid, block, p, nv, mode, ["K %s" % eid, "X k=0 mode=%s | ABNORMAL orchestrator: %s" % (mode, repr(e)[:200]), "E"])


def campaign(trace_text, seed, n_experiments, release_change_pct=30, torn_pct=20, eio_pct=25, workers=16):
    """Pick (history, position) pairs pseudo-randomly and run the experiments."""
    import random
    from concurrent.futures import ProcessPoolExecutor
    rnd = random.Random(seed)
    blocks = [b for b in split_blocks(trace_text) if len(ops_of(b)) >= 4]
    jobs = []
    tries = 0
    while len(jobs) < n_experiments and tries < n_experiments * 20 and blocks:
        tries += 1
        b = rnd.choice(blocks)
        ops = ops_of(b)
        p = rnd.randrange(1, len(ops))
        o = ops[p]
        if o.startswith(("O restart", "O dmg", "O init", "O conc", "O auto")):
            continue
        if p + 1 < len(ops) and rnd.randrange(100) < 60 and not ops[p + 1].startswith(("O restart", "O dmg", "O init", "O conc")):
            p += 1                           # prefer positions deeper inside a launch
        nv = "9.9.9%2B" + str(rnd.randrange(1, 50)) if rnd.randrange(100) < release_change_pct else None
        r = rnd.randrange(100)
        mode = "torn" if r < torn_pct else ("eio" if r < torn_pct + eio_pct else "kill")
        if mode != "eio" and rnd.randrange(100) < 30:
            mode += "+up"                    # the next launch is one of another release
        jobs.append((b, p, nv, mode, "x%d-%s-%d" % (len(jobs), block_id(b), p)))
    with ProcessPoolExecutor(max_workers=workers) as ex:
        return list(ex.map(_one, jobs))


if __name__ == "__main__":
    if len(sys.argv) >= 3 and sys.argv[1] == "--replay":
        replay_file(sys.argv[2])
    else:
        main_manual()
