#!/usr/bin/env python3
"""Writes MANIFEST.json from tools/props.py + tools/manifest_text.py."""
import json, os, sys
sys.path.insert(0, os.path.dirname(os.path.abspath(__file__)))
import props, manifest_text as T
allp = [json.loads(l)["id"] for l in open("/verif/properties.jsonl")]
checks = []
for pid in allp:
    if pid not in props.PROPS or props.PROPS[pid].get('internal'):
        continue
    t = T.TEXT[pid]
    checks.append({
        "property_id": pid,
        "quick_cmd": "python3 tools/run.py %s --tier quick" % pid,
        "thorough_cmd": "python3 tools/run.py %s --tier thorough" % pid,
        "evidence_file": "/verif/evidence/%s.json" % pid,
        "replay_cmd_template": "tools/replay.sh {path}",
        "engine": "lean-model+correspondence",
        "level_claimed": {"category": props.PROPS[pid].get("level", "proof"), "text": t["level"], "design_ref": t["design_ref"]},
        "level_note": t["note"],
        "technique": t["technique"],
    })
m = {
    "version": 1,
    "setup_cmd": "sh tools/setup.sh",
    "hooks": {
        "guard": "cargo feature `verif-hooks` of the `updater` crate (library/Cargo.toml)",
        "enable": "the harness crate depends on updater with features=[\"verif-hooks\"] (path /repo/library)",
        "baseline_off_cmd": "cd /repo && cargo test --workspace --no-fail-fast --offline",
        "source_commits": T.HOOK_COMMITS,
        "add_only": True,
    },
    "engines": [
        {"name": "lean-model+correspondence", "path": "/verif/lean, /verif/harness, /verif/tools/run.py",
         "serves_properties": [c["property_id"] for c in checks],
         "kind_free_text": "Lean 4 model + theorems (kernel-checked) tied to the Rust code by a differential correspondence harness; Lean property monitors evaluated on implementation traces give replays"}],
    "checks": checks,
    "not_applicable": [{"property_id": p, "reason": T.NOT_YET.get(p, "check not built yet (work in progress)")} for p in allp if p not in props.PROPS or props.PROPS[p].get('internal')],
    "notes": T.NOTES,
}
json.dump(m, open("/verif/MANIFEST.json", "w"), indent=1)
print("manifest: %d checks, %d not claimed" % (len(checks), len(m["not_applicable"])))
