/* Links the freshly built library and exercises every function that returns owned memory.
 * Run plain, under valgrind memcheck, or built with ASan.  Prints LAYOUT lines that are compared
 * with the Lean layout model, and RESULT lines that are compared with expectations. */
#include <stdio.h>
#include <stdlib.h>
#include <string.h>
#include <stddef.h>
#include <sys/stat.h>
#include "updater.h"

static void *cb_open(void) { return NULL; }
static uintptr_t cb_read(void *h, uint8_t *b, uintptr_t c) { (void)h; (void)b; (void)c; return 0; }
static int64_t cb_seek(void *h, int64_t o, int32_t w) { (void)h; (void)o; (void)w; return 0; }
static void cb_close(void *h) { (void)h; }

static void write_file(const char *path, const char *content) {
  FILE *f = fopen(path, "w");
  if (!f) { perror(path); exit(2); }
  fputs(content, f);
  fclose(f);
}

int main(int argc, char **argv) {
  if (argc < 2) { fprintf(stderr, "usage: abi_test <scratch dir>\n"); return 2; }
  char st[512], ca[512], p[1024];
  snprintf(st, sizeof st, "%s/storage", argv[1]);
  snprintf(ca, sizeof ca, "%s/cache", argv[1]);
  mkdir(argv[1], 0755); mkdir(st, 0755); mkdir(ca, 0755);
  snprintf(p, sizeof p, "%s/patches", st); mkdir(p, 0755);
  snprintf(p, sizeof p, "%s/patches/1", st); mkdir(p, 0755);
  snprintf(p, sizeof p, "%s/patches/1/dlc.vmcode", st); write_file(p, "hello");
  snprintf(p, sizeof p, "%s/state.json", st);
  write_file(p, "{\"release_version\":\"1.0.0\",\"queued_events\":[]}");
  snprintf(p, sizeof p, "%s/patches_state.json", st);
  write_file(p, "{\"last_booted_patch\":null,\"next_boot_patch\":{\"number\":1,\"size\":5,\"hash\":\"h\",\"signature\":null},"
                "\"currently_booting_patch\":null,\"known_bad_patches\":[]}");
  snprintf(p, sizeof p, "%s/libapp.so", argv[1]); write_file(p, "base");

  printf("LAYOUT UpdateResult size=%zu align=%zu status=%zu message=%zu\n", sizeof(UpdateResult), _Alignof(UpdateResult),
         offsetof(UpdateResult, status), offsetof(UpdateResult, message));
  printf("LAYOUT AppParameters size=%zu align=%zu release_version=%zu original_libapp_paths=%zu original_libapp_paths_size=%zu app_storage_dir=%zu code_cache_dir=%zu\n",
         sizeof(AppParameters), _Alignof(AppParameters), offsetof(AppParameters, release_version), offsetof(AppParameters, original_libapp_paths),
         offsetof(AppParameters, original_libapp_paths_size), offsetof(AppParameters, app_storage_dir), offsetof(AppParameters, code_cache_dir));
  printf("LAYOUT FileCallbacks size=%zu align=%zu open=%zu read=%zu seek=%zu close=%zu\n", sizeof(FileCallbacks), _Alignof(FileCallbacks),
         offsetof(FileCallbacks, open), offsetof(FileCallbacks, read), offsetof(FileCallbacks, seek), offsetof(FileCallbacks, close));
  printf("CONST error=%d no_update=%d installed=%d had_error=%d bad_patch=%d\n", SHOREBIRD_UPDATE_ERROR, SHOREBIRD_NO_UPDATE,
         SHOREBIRD_UPDATE_INSTALLED, SHOREBIRD_UPDATE_HAD_ERROR, SHOREBIRD_UPDATE_IS_BAD_PATCH);

  /* before init: defaults, and owned memory from an uninitialised library */
  char *q = shorebird_next_boot_patch_path();
  printf("RESULT uninit_path_null=%d\n", q == NULL);
  shorebird_free_string(q);
  const UpdateResult *r0 = shorebird_update_with_result(NULL);
  printf("RESULT uninit_update status=%d msg=%s\n", r0->status, r0->message ? r0->message : "(null)");
  shorebird_free_update_result((UpdateResult *)r0);

  const char *libs[1]; libs[0] = p;
  AppParameters params; memset(&params, 0, sizeof params);
  params.release_version = "1.0.0"; params.original_libapp_paths = libs; params.original_libapp_paths_size = 1;
  params.app_storage_dir = st; params.code_cache_dir = ca;
  FileCallbacks cbs = { cb_open, cb_read, cb_seek, cb_close };
  /* initialisations a C caller can get wrong: each must answer false, touch nothing, and leave the library usable */
  int refused = 0;
  {
    AppParameters bad;
    refused += !shorebird_init(NULL, cbs, "app_id: abi-test\n");
    refused += !shorebird_init(&params, cbs, NULL);
    refused += !shorebird_init(&params, cbs, "app_id: \xff\xfe\n");
    bad = params; bad.release_version = "1.0.\xff"; refused += !shorebird_init(&bad, cbs, "app_id: abi-test\n");
    bad = params; bad.app_storage_dir = "/tmp/\xff\xfe"; refused += !shorebird_init(&bad, cbs, "app_id: abi-test\n");
    bad = params; bad.code_cache_dir = NULL; refused += !shorebird_init(&bad, cbs, "app_id: abi-test\n");
    bad = params; bad.original_libapp_paths_size = 0; refused += !shorebird_init(&bad, cbs, "app_id: abi-test\n");
    bad = params; bad.original_libapp_paths_size = -1; refused += !shorebird_init(&bad, cbs, "app_id: abi-test\n");
  }
  printf("RESULT refused_inits=%d\n", refused);
  bool ok = shorebird_init(&params, cbs, "app_id: abi-test\nbase_url: http://127.0.0.1:9\n");
  printf("RESULT init=%d second_init=%d\n", ok, shorebird_init(&params, cbs, "app_id: other\n"));
  printf("RESULT next=%lu current=%lu auto=%d\n", (unsigned long)shorebird_next_boot_patch_number(),
         (unsigned long)shorebird_current_boot_patch_number(), shorebird_should_auto_update());
  int good_paths = 0, results = 0;
  int iters = argc > 2 ? atoi(argv[2]) : 25;
  for (int i = 0; i < iters; i++) {
    char *path = shorebird_next_boot_patch_path();
    if (path && strstr(path, "/patches/1/dlc.vmcode")) good_paths++;
    /* the channel argument in every shape a C caller can hand over: absent, plain, not UTF-8, empty */
    static const char *const channels[4] = { NULL, "beta", "\xff\xfe", "" };
    const UpdateResult *r = shorebird_update_with_result(channels[i % 4]);
    if (r && r->status == SHOREBIRD_UPDATE_ERROR && r->message) results++;
    /* release in both orders */
    if (i % 2) { shorebird_free_string(path); shorebird_free_update_result((UpdateResult *)r); }
    else { shorebird_free_update_result((UpdateResult *)r); shorebird_free_string(path); }
  }
  printf("RESULT good_paths=%d error_results=%d iters=%d\n", good_paths, results, iters);
  shorebird_free_string(NULL);
  shorebird_free_update_result(NULL);
  shorebird_report_launch_start();
  printf("RESULT current_after_start=%lu\n", (unsigned long)shorebird_current_boot_patch_number());
  shorebird_report_launch_success();
  printf("RESULT check=%d\n", shorebird_check_for_downloadable_update(NULL));
  return 0;
}
